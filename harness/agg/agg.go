//go:build verif

// Package agg adapts a real AggregationProcess: builds records from abstract descriptions,
// implements virtual time with the verif hook, projects flow records and the expiry heap.
package agg

import (
	"fmt"
	"net"
	"sort"
	"time"

	"github.com/vmware/go-ipfix/pkg/entities"
	"github.com/vmware/go-ipfix/pkg/intermediate"
	"github.com/vmware/go-ipfix/pkg/registry"

	"verif/harness/vt"
)

const Unit = time.Hour

var (
	StatsElements = []string{"packetTotalCount", "packetDeltaCount", "octetTotalCount", "reversePacketTotalCount", "reversePacketDeltaCount", "reverseOctetTotalCount"}
	srcStats      = []string{"packetTotalCountFromSourceNode", "packetDeltaCountFromSourceNode", "octetTotalCountFromSourceNode", "reversePacketTotalCountFromSourceNode", "reversePacketDeltaCountFromSourceNode", "reverseOctetTotalCountFromSourceNode"}
	dstStats      = []string{"packetTotalCountFromDestinationNode", "packetDeltaCountFromDestinationNode", "octetTotalCountFromDestinationNode", "reversePacketTotalCountFromDestinationNode", "reversePacketDeltaCountFromDestinationNode", "reverseOctetTotalCountFromDestinationNode"}
	tput          = []string{"throughput", "reverseThroughput"}
	tputS         = []string{"throughputFromSourceNode", "reverseThroughputFromSourceNode"}
	tputD         = []string{"throughputFromDestinationNode", "reverseThroughputFromDestinationNode"}
	CorrFields    = []string{"sourcePodName", "sourcePodNamespace", "sourceNodeName", "destinationPodName", "destinationPodNamespace", "destinationNodeName",
		"destinationClusterIPv4", "destinationClusterIPv6", "destinationServicePort", "ingressNetworkPolicyRuleAction", "egressNetworkPolicyRuleAction", "ingressNetworkPolicyRulePriority"}
)

// Rec is the abstract record of spec/Aggregation.tla.
type Rec struct {
	Key     string `json:"key"`
	Sp      string `json:"sp"`
	Dp      string `json:"dp"`
	Sns     string `json:"sns"`
	Dns     string `json:"dns"`
	Ftype   int    `json:"ftype"`
	Egress  int    `json:"egress"`
	Ingress int    `json:"ingress"`
	Prio    int    `json:"prio"` // ingressNetworkPolicyRulePriority (signed32; 0 = empty)
	Cip     []int  `json:"cip"`  // destinationClusterIPv4 (four bytes; 0.0.0.0 = empty)
	Lacking bool   `json:"lacking,omitempty"` // the record carries no flowEndReason element
	Start   int    `json:"start"`
	End     int    `json:"end"`
	Vals    []int  `json:"vals"`
	Reason  int    `json:"reason"`
}

// Tuple is a concrete 5-tuple.
type Tuple struct {
	Src, Dst string
	Proto    uint8
	SPort    uint16
	DPort    uint16
}

func (t Tuple) V4() bool { return net.ParseIP(t.Src).To4() != nil }

func (t Tuple) FlowKey() intermediate.FlowKey {
	return intermediate.FlowKey{SourceAddress: net.ParseIP(t.Src).String(), DestinationAddress: net.ParseIP(t.Dst).String(), Protocol: t.Proto, SourcePort: t.SPort, DestinationPort: t.DPort}
}

// Pool: abstract key names -> 5-tuples (IPv4 and IPv6); tuples differ in exactly one component
// from a neighbour so that a flow key that ignores a component merges flows.
var Pool = map[string]Tuple{
	"k1": {"10.0.0.1", "10.0.0.2", 6, 1000, 80},
	"k2": {"10.0.0.1", "10.0.0.2", 6, 1001, 80},
	"k3": {"10.0.0.1", "10.0.0.2", 17, 1000, 80},
	"k4": {"2001:db8::1", "2001:db8::2", 6, 1000, 80},
	"k5": {"2001:db8::1", "2001:db8::3", 6, 1000, 80},
	"k6": {"10.0.0.1", "10.0.0.2", 6, 1000, 81},
	"k7": {"10.0.0.3", "10.0.0.2", 6, 1000, 80},
	"k8": {"2001:db8::1", "2001:db8::2", 6, 1000, 443},
	// protocols without ports: the port fields still tell flows apart (ICMP, GRE)
	// (non-zero everywhere: GetRecords treats a zero field of its filter as "any")
	"k9":  {"10.0.0.1", "10.0.0.2", 1, 8, 1},
	"k10": {"10.0.0.1", "10.0.0.2", 1, 8, 2},
	"k11": {"10.0.0.1", "10.0.0.2", 47, 1, 1},
	"k12": {"2001:db8::1", "2001:db8::2", 58, 128, 1},
}

func KeyName(fk intermediate.FlowKey) string {
	for n, t := range Pool {
		if t.FlowKey() == fk {
			return n
		}
	}
	return fmt.Sprintf("?%v", fk)
}

func ie(name string, ent uint32) *entities.InfoElement {
	e, err := registry.GetInfoElement(name, ent)
	if err != nil {
		panic(err)
	}
	return e
}

// BuildRecord makes a real decoded-style data record for r.
func BuildRecord(r Rec) entities.Record {
	t := Pool[r.Key]
	var elems []entities.InfoElementWithValue
	if t.V4() {
		elems = append(elems, entities.NewIPAddressInfoElement(ie("sourceIPv4Address", 0), net.ParseIP(t.Src).To4()),
			entities.NewIPAddressInfoElement(ie("destinationIPv4Address", 0), net.ParseIP(t.Dst).To4()))
	} else {
		elems = append(elems, entities.NewIPAddressInfoElement(ie("sourceIPv6Address", 0), net.ParseIP(t.Src)),
			entities.NewIPAddressInfoElement(ie("destinationIPv6Address", 0), net.ParseIP(t.Dst)))
	}
	elems = append(elems,
		entities.NewUnsigned16InfoElement(ie("sourceTransportPort", 0), t.SPort),
		entities.NewUnsigned16InfoElement(ie("destinationTransportPort", 0), t.DPort),
		entities.NewUnsigned8InfoElement(ie("protocolIdentifier", 0), t.Proto),
		entities.NewDateTimeSecondsInfoElement(ie("flowStartSeconds", 0), uint32(r.Start)),
		entities.NewDateTimeSecondsInfoElement(ie("flowEndSeconds", 0), uint32(r.End)),
	)
	if !r.Lacking {
		elems = append(elems, entities.NewUnsigned8InfoElement(ie("flowEndReason", 0), uint8(r.Reason)))
	}
	elems = append(elems,
		entities.NewStringInfoElement(ie("tcpState", registry.AntreaEnterpriseID), "ESTABLISHED"),
		entities.NewStringInfoElement(ie("httpVals", registry.AntreaEnterpriseID), ""),
	)
	for i, n := range StatsElements {
		ent := uint32(0)
		if i >= 3 {
			ent = registry.IANAReversedEnterpriseID
		}
		elems = append(elems, entities.NewUnsigned64InfoElement(ie(n, ent), uint64(r.Vals[i])))
	}
	a := registry.AntreaEnterpriseID
	elems = append(elems,
		entities.NewStringInfoElement(ie("sourcePodName", a), r.Sp),
		entities.NewStringInfoElement(ie("destinationPodName", a), r.Dp),
		entities.NewStringInfoElement(ie("sourcePodNamespace", a), r.Sns),
		entities.NewStringInfoElement(ie("destinationPodNamespace", a), r.Dns),
		entities.NewUnsigned8InfoElement(ie("flowType", a), uint8(r.Ftype)),
		entities.NewUnsigned8InfoElement(ie("egressNetworkPolicyRuleAction", a), uint8(r.Egress)),
		entities.NewUnsigned8InfoElement(ie("ingressNetworkPolicyRuleAction", a), uint8(r.Ingress)),
		entities.NewSigned32InfoElement(ie("ingressNetworkPolicyRulePriority", a), int32(r.Prio)),
		entities.NewIPAddressInfoElement(ie("destinationClusterIPv4", a), cipOf(r)),
	)
	return entities.NewDataRecordFromElements(256, elems, true)
}

func BuildMessage(rs ...Rec) *entities.Message {
	set := entities.NewSet(true)
	set.PrepareSet(entities.Data, 256)
	for _, r := range rs {
		rec := BuildRecord(r)
		set.AddRecordV2(rec.GetOrderedElementList(), 256)
	}
	m := entities.NewMessage(true)
	m.AddSet(set)
	return m
}

// P is a real aggregation process under virtual time.
type P struct {
	A       *intermediate.AggregationProcess
	Now     int // virtual time in units = total shift
	T0      time.Time
	ActiveT int
	InactT  int
	MsgCh   chan *entities.Message
}

func New(activeUnits, inactiveUnits, maxRetries, workers int) *P {
	return NewUnit(Unit, activeUnits, inactiveUnits, maxRetries, workers)
}

// NewUnit: as New, with timeouts of the given number of units of real duration unit (real-time runs use a short unit
// and let time pass by itself instead of shifting deadlines).
func NewUnit(unit time.Duration, activeUnits, inactiveUnits, maxRetries, workers int) *P {
	intermediate.MaxRetries = maxRetries
	ch := make(chan *entities.Message)
	in := intermediate.AggregationInput{
		MessageChan: ch, WorkerNum: workers, CorrelateFields: CorrFields,
		AggregateElements: &intermediate.AggregationElements{
			NonStatsElements: []string{"flowEndSeconds", "flowEndReason", "tcpState", "httpVals"},
			StatsElements:    StatsElements, AggregatedSourceStatsElements: srcStats, AggregatedDestinationStatsElements: dstStats,
			AntreaFlowEndSecondsElements: []string{"flowEndSecondsFromSourceNode", "flowEndSecondsFromDestinationNode"},
			ThroughputElements:           tput, SourceThroughputElements: tputS, DestinationThroughputElements: tputD,
		},
		ActiveExpiryTimeout: time.Duration(activeUnits) * unit, InactiveExpiryTimeout: time.Duration(inactiveUnits) * unit,
	}
	a, err := intermediate.InitAggregationProcess(in)
	if err != nil {
		panic(err)
	}
	return &P{A: a, T0: time.Now(), ActiveT: activeUnits, InactT: inactiveUnits, MsgCh: ch}
}

func (p *P) Advance(d int) {
	p.A.VerifShiftDeadlines(time.Duration(d) * Unit)
	p.Now += d
}

func (p *P) units(t time.Time) int {
	d := t.Sub(p.T0)
	u := int((d + Unit/2) / Unit)
	if d < -Unit/2 {
		u = -int((-d + Unit/2) / Unit)
	}
	return u + p.Now
}

func u64(m map[string]interface{}, n string) int {
	if v, ok := m[n]; ok {
		switch x := v.(type) {
		case uint64:
			return int(x)
		case uint32:
			return int(x)
		case uint8:
			return int(x)
		}
	}
	return -1
}
func cipOf(r Rec) net.IP {
	if len(r.Cip) != 4 {
		return net.IP{0, 0, 0, 0}
	}
	return net.IP{byte(r.Cip[0]), byte(r.Cip[1]), byte(r.Cip[2]), byte(r.Cip[3])}
}
func ip4(m map[string]interface{}, n string) []int {
	if v, ok := m[n].(net.IP); ok && v.To4() != nil {
		v4 := v.To4()
		return []int{int(v4[0]), int(v4[1]), int(v4[2]), int(v4[3])}
	}
	return []int{-1, -1, -1, -1}
}
func s32(m map[string]interface{}, n string) int {
	if v, ok := m[n].(int32); ok {
		return int(v)
	}
	return -999
}
func str(m map[string]interface{}, n string) string {
	if v, ok := m[n].(string); ok {
		return v
	}
	return "?"
}

// FlowProj projects one aggregated record (through GetRecords) plus its flags.
func (p *P) FlowProj(name string, f intermediate.VerifFlow) Ev {
	fk := Pool[name].FlowKey()
	recs := p.A.GetRecords(&fk)
	if len(recs) != 1 {
		// the flow is in the snapshot but GetRecords does not return exactly one record for its key: a record of the
		// usual shape with impossible values (the trace spec then rejects it instead of tripping over a missing field)
		neg := []int{-1, -1, -1, -1, -1, -1}
		return vt.Ev{"k": name, "nrecs": len(recs), "sp": "?", "dp": "?", "sns": "?", "dns": "?", "ftype": -1, "egress": -1, "ingress": -1, "prio": -999, "cip": []int{-1, -1, -1, -1},
			"start": -1, "end": -1, "endS": -1, "endD": -1, "com": neg, "frS": neg, "frD": neg, "tp": []int{-1, -1}, "tpS": []int{-1, -1}, "tpD": []int{-1, -1},
			"reason": -1, "ready": false, "retries": -1, "filled": false}
	}
	return withKV(p.FlowProjOf(name, recs[0], f.Ready, f.Filled), "retries", f.Retries)
}

// FlowProjOf projects an element map (no API calls: usable while the process mutex is held).
func (p *P) FlowProjOf(name string, m map[string]interface{}, ready, filled bool) Ev {
	vec := func(names []string) []int {
		out := make([]int, len(names))
		for i, n := range names {
			out[i] = u64(m, n)
		}
		return out
	}
	return Ev{"k": name, "sp": str(m, "sourcePodName"), "dp": str(m, "destinationPodName"), "sns": str(m, "sourcePodNamespace"), "dns": str(m, "destinationPodNamespace"),
		"ftype": u64(m, "flowType"), "egress": u64(m, "egressNetworkPolicyRuleAction"), "ingress": u64(m, "ingressNetworkPolicyRuleAction"), "prio": s32(m, "ingressNetworkPolicyRulePriority"), "cip": ip4(m, "destinationClusterIPv4"),
		"start": u64(m, "flowStartSeconds"), "end": u64(m, "flowEndSeconds"), "endS": u64(m, "flowEndSecondsFromSourceNode"), "endD": u64(m, "flowEndSecondsFromDestinationNode"),
		"com": vec(StatsElements), "frS": vec(srcStats), "frD": vec(dstStats), "tp": vec(tput), "tpS": vec(tputS), "tpD": vec(tputD),
		"reason": u64(m, "flowEndReason"), "ready": ready, "retries": 0, "filled": filled}
}

// Ev is vt.Ev with a chaining setter.
type Ev = vt.Ev

func withKV(e Ev, k string, v any) Ev { e[k] = v; return e }

// KeyOfMap recovers the abstract key name from an element map (5-tuple fields).
func KeyOfMap(m map[string]interface{}) string {
	get := func(n string) string {
		if ip, ok := m[n].(net.IP); ok && ip != nil {
			return ip.String()
		}
		return ""
	}
	src, dst := get("sourceIPv4Address"), get("destinationIPv4Address")
	if src == "" {
		src, dst = get("sourceIPv6Address"), get("destinationIPv6Address")
	}
	fk := intermediate.FlowKey{SourceAddress: src, DestinationAddress: dst}
	if v, ok := m["protocolIdentifier"].(uint8); ok {
		fk.Protocol = v
	}
	if v, ok := m["sourceTransportPort"].(uint16); ok {
		fk.SourcePort = v
	}
	if v, ok := m["destinationTransportPort"].(uint16); ok {
		fk.DestinationPort = v
	}
	return KeyName(fk)
}

// Snapshot adds the projected state to ev.
func (p *P) Snapshot(ev vt.Ev) vt.Ev {
	flows, items, _ := p.A.VerifSnapshot()
	sort.Slice(flows, func(i, j int) bool { return KeyName(flows[i].Key) < KeyName(flows[j].Key) })
	fl := make([]any, 0, len(flows))
	for _, f := range flows {
		fl = append(fl, p.FlowProj(KeyName(f.Key), f))
	}
	hp := make([]any, 0, len(items))
	for _, it := range items {
		hp = append(hp, vt.Ev{"k": KeyName(it.Key), "act": p.units(it.Active), "inact": p.units(it.Inactive), "index": it.Index, "pos": it.Pos, "recsame": it.RecordSame, "backptr": it.BackPtr})
	}
	ev["flows"], ev["heap"], ev["now"] = fl, hp, p.Now
	ev["numflows"] = int(p.A.GetNumFlows())
	d := p.A.GetExpiryFromExpirePriorityQueue()
	ev["expiry"] = int((d + Unit/2) / Unit)
	return ev
}

// Scan runs ForAllExpiredFlowRecordsDo with a callback failing on the given keys.
func (p *P) Scan(fail map[string]bool) (calls []string, err error) {
	calls = []string{}
	err = p.A.ForAllExpiredFlowRecordsDo(func(k intermediate.FlowKey, r *intermediate.AggregationFlowRecord) error {
		n := KeyName(k)
		calls = append(calls, n)
		if fail[n] {
			return fmt.Errorf("injected callback failure for %s", n)
		}
		return nil
	})
	return calls, err
}

// ResetStats resets delta and throughput fields of one flow under the lock.
func (p *P) ResetStats(name string) {
	fk := Pool[name].FlowKey()
	p.A.ForAllRecordsDo(func(k intermediate.FlowKey, r *intermediate.AggregationFlowRecord) error {
		if k == fk {
			return p.A.ResetStatAndThroughputElementsInRecord(r.Record)
		}
		return nil
	})
}
