module verif/harness

go 1.23.0

require (
	github.com/pion/dtls/v2 v2.2.12
	github.com/vmware/go-ipfix v0.0.0
)

require (
	github.com/go-logr/logr v1.4.2 // indirect
	github.com/pion/logging v0.2.2 // indirect
	github.com/pion/transport/v2 v2.2.10 // indirect
	golang.org/x/crypto v0.27.0 // indirect
	golang.org/x/net v0.29.0 // indirect
	golang.org/x/sys v0.25.0 // indirect
	k8s.io/klog/v2 v2.130.1 // indirect
)

replace github.com/vmware/go-ipfix => /repo
