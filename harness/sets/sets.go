// Package sets describes sets handed to an exporter (templates / data with abstract values),
// builds the real entities.Set for them and renders them for the trace.
package sets

import (
	"math/rand"

	"github.com/vmware/go-ipfix/pkg/entities"

	"verif/harness/absv"
	"verif/harness/gen"
	"verif/harness/vt"
)

type Rec struct {
	Tid  int
	IEs  []*entities.InfoElement
	Vals [][]int
}

type Desc struct {
	Stype string // template | data | undef
	HdrID int
	Recs  []Rec
}

func RecLen(ies []*entities.InfoElement, vals [][]int) int {
	n := 0
	for i, ie := range ies {
		if ie.DataType == entities.Boolean {
			n++
		} else if gen.Width(ie) < 0 {
			n += len(vals[i]) + len(absv.VarPrefix(len(vals[i])))
		} else {
			n += int(ie.Len)
		}
	}
	return n
}

func (s Desc) JSON() vt.Ev {
	recs := make([]any, 0, len(s.Recs))
	for _, r := range s.Recs {
		kind := "data"
		vals := any(r.Vals)
		if s.Stype == "template" {
			kind = "template"
			vals = []int{}
		}
		recs = append(recs, vt.Ev{"kind": kind, "tid": r.Tid, "fields": absv.FieldsOf(r.IEs), "vals": vals})
	}
	return vt.Ev{"stype": s.Stype, "hdrId": s.HdrID, "recs": recs}
}

func (s Desc) Build() entities.Set { return s.BuildInto(entities.NewSet(false)) }

// BuildInto fills the given set object (a fresh one, or one the application recycles: it is reset first)
func (s Desc) BuildInto(set entities.Set) entities.Set {
	set.ResetSet()
	switch s.Stype {
	case "template":
		set.PrepareSet(entities.Template, uint16(s.HdrID))
	case "data":
		set.PrepareSet(entities.Data, uint16(s.HdrID))
	default:
		set.ResetSet()
		return set
	}
	for _, r := range s.Recs {
		elems := make([]entities.InfoElementWithValue, len(r.IEs))
		for i, ie := range r.IEs {
			var e entities.InfoElementWithValue
			var err error
			if s.Stype == "template" {
				e, err = entities.DecodeAndCreateInfoElementWithValue(ie, nil)
			} else {
				e, err = gen.Elem(ie, r.Vals[i])
			}
			if err != nil {
				panic(err)
			}
			elems[i] = e
		}
		if err := set.AddRecord(elems, uint16(r.Tid)); err != nil {
			panic(err)
		}
	}
	return set
}

func RandTemplate(r *rand.Rand, pool []*entities.InfoElement, maxFields int) []*entities.InfoElement {
	n := 1 + r.Intn(maxFields)
	out := make([]*entities.InfoElement, n)
	for i := range out {
		out[i] = pool[r.Intn(len(pool))]
	}
	return out
}

func RandVals(r *rand.Rand, ies []*entities.InfoElement, maxVar int) [][]int {
	vals := make([][]int, len(ies))
	allZero := r.Intn(8) == 0 // a record whose every value is zero / empty (it must still be a record)
	for i, ie := range ies {
		if allZero {
			vals[i] = gen.Zero(ie)
		} else {
			vals[i] = gen.Abs(r, ie, maxVar)
		}
	}
	return vals
}

func Tmpl(tid int, ies []*entities.InfoElement) Desc {
	return Desc{Stype: "template", HdrID: 2, Recs: []Rec{{Tid: tid, IEs: ies}}}
}

// Data builds a data set with up to n records so that the message fits limit bytes.
func Data(r *rand.Rand, tid int, ies []*entities.InfoElement, n int, maxVar int, limit int) Desc {
	d := Desc{Stype: "data", HdrID: tid}
	total := 20
	for i := 0; i < n; i++ {
		v := RandVals(r, ies, maxVar)
		l := RecLen(ies, v)
		if total+l > limit {
			break
		}
		total += l
		d.Recs = append(d.Recs, Rec{Tid: tid, IEs: ies, Vals: v})
	}
	return d
}

// Pool is every supported element of the shipped registries plus the custom ones.
func Pool(custom []*entities.InfoElement) []*entities.InfoElement {
	var pool []*entities.InfoElement
	for _, ie := range gen.AllRegistry() {
		if gen.Supported(ie) {
			pool = append(pool, ie)
		}
	}
	for _, ie := range custom {
		if ie.DataType == entities.String && ie.Len != entities.VariableLength {
			continue // fixed-length strings: see the named deviation in spec/Wire.tla
		}
		pool = append(pool, ie)
	}
	return pool
}
