//go:build verif

// c16: set and record builders. Random operation sequences on one reused real set object;
// after every call the observable state is logged.
package main

import (
	"flag"
	"fmt"
	"hash/fnv"
	"math/rand"
	"time"

	"github.com/vmware/go-ipfix/pkg/entities"
	"github.com/vmware/go-ipfix/pkg/exporter"
	"github.com/vmware/go-ipfix/pkg/registry"

	"verif/harness/absv"
	"verif/harness/gen"
	"verif/harness/vt"
)

var (
	out  = flag.String("out", "trace.ndjson", "trace file")
	seed = flag.Int64("seed", 1, "seed")
	tier = flag.String("tier", "quick", "quick|thorough")
)

type op struct {
	kind  string // prepare add update reset serialize
	stype string
	id    int
	path  string
	extra int
	ies   []*entities.InfoElement
	vals  [][]int
	// a template add whose elements carry values: refused by the copying paths
	valued bool
	valsT  [][]int
}

func obs(s entities.Set, ev vt.Ev) vt.Ev {
	ev["setlen"] = s.GetSetLength()
	ev["hdr"] = vt.B(s.GetHeaderBuffer())
	ev["nrec"] = int(s.GetNumberOfRecords())
	return ev
}

func apply(w *vt.Writer, s entities.Set, o op, forcePath string) {
	defer func() {
		if r := recover(); r != nil {
			// a panic inside the library is an observation like any other (no action explains it)
			w.Emit(vt.Ev{"e": "Panic", "op": o.kind, "detail": fmt.Sprint(r)})
		}
	}()
	switch o.kind {
	case "prepare":
		var t entities.ContentType
		switch o.stype {
		case "template":
			t = entities.Template
		case "data":
			t = entities.Data
		default:
			t = entities.Undefined
		}
		err := s.PrepareSet(t, uint16(o.id))
		w.Emit(obs(s, vt.Ev{"e": "Prepare", "type": o.stype, "id": o.id, "err": err != nil}))
	case "add":
		elems := make([]entities.InfoElementWithValue, len(o.ies))
		isTmpl := s.GetSetType() == entities.Template
		for i, ie := range o.ies {
			var e entities.InfoElementWithValue
			var err error
			if isTmpl && !o.valued {
				e, err = entities.DecodeAndCreateInfoElementWithValue(ie, nil)
			} else if isTmpl {
				e, err = gen.Elem(ie, o.valsT[i])
			} else {
				e, err = gen.Elem(ie, o.vals[i])
			}
			if err != nil {
				panic(err)
			}
			elems[i] = e
		}
		path := o.path
		if forcePath != "" {
			path = forcePath
		}
		if o.valued && path == "adopt" {
			path = "copy" // the slice-adopting path does not look at values; only the refusing paths are exercised
		}
		before := int(s.GetNumberOfRecords())
		var err error
		switch path {
		case "copy":
			err = s.AddRecord(elems, uint16(o.id))
		case "extra":
			err = s.AddRecordWithExtraElements(elems, o.extra, uint16(o.id))
		default:
			err = s.AddRecordV2(elems, uint16(o.id))
		}
		if path != "adopt" && err == nil && !isTmpl {
			// the copying paths own their record: the caller refills its scratch slice for the next record
			for i, ie := range o.ies {
				if z, zerr := gen.Elem(ie, gen.Zero(ie)); zerr == nil {
					elems[i] = z
				}
			}
		}
		ev := vt.Ev{"e": "Add", "path": path, "id": o.id, "fields": absv.FieldsOf(o.ies), "vals": o.vals, "err": err != nil, "valued": o.valued && isTmpl}
		if int(s.GetNumberOfRecords()) == before+1 {
			r := s.GetRecords()[before]
			ev["newlen"] = r.GetRecordLength()
			ev["newbuf"] = vt.B(r.GetBuffer())
		} else {
			ev["newlen"] = -1
			ev["newbuf"] = []int{}
		}
		w.Emit(obs(s, ev))
	case "update":
		s.UpdateLenInHeader()
		w.Emit(obs(s, vt.Ev{"e": "UpdateLen"}))
	case "reset":
		s.ResetSet()
		w.Emit(obs(s, vt.Ev{"e": "ResetSet"}))
	case "serialize":
		tm := uint32(1700000000 + o.id)
		seq := uint32(o.id) * 2654435761
		dom := uint32(o.extra) * 40503
		b, err := exporter.CreateIPFIXMsg(s, dom, seq, time.Unix(int64(tm), 0))
		w.Emit(vt.Ev{"e": "Serialize", "time": int(tm), "seq": vt.Limbs(seq), "dom": vt.Limbs(dom), "err": err != nil, "msg": vt.B(b)})
	}
}

func main() {
	flag.Parse()
	thorough := *tier == "thorough"
	registry.LoadRegistry()
	gen.NonUTF8 = true
	custom, err := gen.RegisterCustom()
	if err != nil {
		panic(err)
	}
	pool := make([]*entities.InfoElement, 0)
	for _, ie := range gen.AllRegistry() {
		if gen.Supported(ie) {
			pool = append(pool, ie)
		}
	}
	for _, ie := range custom {
		if ie.Len <= 64 || ie.Len == entities.VariableLength || ie.DataType == entities.String {
			pool = append(pool, ie)
		}
	}
	w, err := vt.Open(*out)
	if err != nil {
		panic(err)
	}
	r := rand.New(rand.NewSource(*seed))
	nseq, maxOps := 60, 60
	if thorough {
		nseq, maxOps = 400, 250
	}
	distinct := map[uint64]bool{}
	evals := 0
	for i := 0; i < nseq; i++ {
		n := 5 + r.Intn(maxOps)
		ops := make([]op, 0, n)
		prepared := false
		curType := ""
		for j := 0; j < n; j++ {
			x := r.Intn(100)
			switch {
			case x < 12 || (!prepared && x < 60) || j == 0:
				t := []string{"template", "data", "data", "undefined"}[r.Intn(4)]
				if j == 0 && t == "undefined" {
					// a brand-new set must be prepared before anything else (well-formed order)
					t = "data"
				}
				ops = append(ops, op{kind: "prepare", stype: t, id: 256 + r.Intn(4)})
				if t != "undefined" {
					prepared = true
					curType = t
				}
			case x < 70:
				nf := r.Intn(7)
				if r.Intn(10) == 0 {
					nf = 10 + r.Intn(30)
				}
				o := op{kind: "add", id: 256 + r.Intn(4), path: []string{"copy", "extra", "adopt"}[r.Intn(3)], extra: r.Intn(5)}
				for k := 0; k < nf; k++ {
					ie := pool[r.Intn(len(pool))]
					o.ies = append(o.ies, ie)
					if curType == "template" {
						o.vals = append(o.vals, []int{})
					} else {
						maxVar := 300
						if r.Intn(40) == 0 {
							maxVar = 30000
						}
						v := gen.Abs(r, ie, maxVar)
						if gen.Width(ie) < 0 && maxVar == 30000 {
							v = make([]int, 10000+r.Intn(20000))
						}
						if ie.DataType == entities.OctetArray && gen.Width(ie) > 0 && r.Intn(5) == 0 {
							// a value that does not fit the fixed length: the builders take it, the field reads as zeroes
							n := gen.Width(ie) + []int{-1, 1, 3}[r.Intn(3)]
							v = make([]int, n)
							for q := range v {
								v[q] = 1 + r.Intn(255)
							}
						}
						o.vals = append(o.vals, v)
					}
				}
				if curType == "template" {
					o.vals = [][]int{}
					if len(o.ies) > 0 && r.Intn(5) == 0 { // a template record whose elements carry (non-empty) values: refused
						o.valued = true
						for _, ie := range o.ies {
							v := gen.Abs(r, ie, 20)
							nonEmpty := false
							for q, b := range v {
								if q == 0 && (ie.DataType == entities.Float32 || ie.DataType == entities.Float64) {
									b &= 0x7f // the sign alone does not make a float non-zero: -0.0 counts as empty
								}
								if b != 0 {
									nonEmpty = true
								}
							}
							if !nonEmpty {
								v = append(v[:0:0], v...)
								if len(v) == 0 {
									v = []int{65}
								} else {
									v[len(v)-1] = 1
								}
							}
							o.valsT = append(o.valsT, v)
						}
					}
				}
				ops = append(ops, o)
			case x < 80:
				ops = append(ops, op{kind: "update"})
			case x < 90:
				ops = append(ops, op{kind: "serialize", id: r.Intn(1 << 20), extra: r.Intn(1 << 16)})
			default:
				ops = append(ops, op{kind: "reset"})
				prepared = false
				curType = ""
			}
		}
		h := fnv.New64a()
		for _, o := range ops {
			fmt.Fprint(h, o.kind, o.stype, o.id, len(o.ies), o.vals)
		}
		distinct[h.Sum64()] = true
		// the same schedule on four real set objects: random paths, and each path alone
		for _, force := range []string{"", "copy", "extra", "adopt"} {
			w.Reset(vt.Ev{"schedule": i, "force": force})
			s := entities.NewSet(false)
			for _, o := range ops {
				// an add on a set whose current type is unknown to the generator (prepare undefined etc.) is still fine
				apply(w, s, o, force)
				evals++
			}
		}
	}
	// lives of very different sizes on one set object: 3, 64, 65, 2, 200, 5 records (data), reset in between
	{
		u8 := pool[0]
		for _, ie := range pool {
			if ie.DataType == entities.Unsigned8 {
				u8 = ie
				break
			}
		}
		for _, force := range []string{"copy", "adopt"} {
			w.Reset(vt.Ev{"schedule": -1, "force": force})
			s := entities.NewSet(false)
			for _, life := range []int{3, 64, 65, 2, 200, 5} {
				apply(w, s, op{kind: "prepare", stype: "data", id: 256}, force)
				for k := 0; k < life; k++ {
					apply(w, s, op{kind: "add", id: 256, path: force, ies: []*entities.InfoElement{u8}, vals: [][]int{{k % 251}}}, force)
					evals++
				}
				apply(w, s, op{kind: "update"}, force)
				apply(w, s, op{kind: "serialize", id: life, extra: 1}, force)
				apply(w, s, op{kind: "reset"}, force)
			}
		}
	}
	w.Close()
	vt.PrintSummary(vt.Summary{Events: w.Events(), Traces: w.Traces(), Evaluations: evals, Distinct: len(distinct)})
}
