//go:build verif

// c18: encrypted transports. One real handshake (and message) per cell of the configuration matrix.
package main

import (
	"context"
	"crypto/tls"
	"crypto/x509"
	"flag"
	"fmt"
	"net"
	"os"
	"path/filepath"
	"sync"
	"time"

	"github.com/pion/dtls/v2"

	"github.com/vmware/go-ipfix/pkg/collector"
	"github.com/vmware/go-ipfix/pkg/entities"
	"github.com/vmware/go-ipfix/pkg/exporter"
	"github.com/vmware/go-ipfix/pkg/registry"

	"verif/harness/absv"
	"verif/harness/pki"
	"verif/harness/vt"
)

var (
	out  = flag.String("out", "trace.ndjson", "trace file")
	seed = flag.Int64("seed", 1, "seed")
	tier = flag.String("tier", "quick", "quick|thorough")
)

type cell struct {
	Side     string `json:"side"`
	Proto    string `json:"proto"`
	SrvCert  string `json:"srvCert"`
	SrvName  string `json:"srvName"`
	CliCert  string `json:"cliCert"`
	CliCA    bool   `json:"cliCA"`
	PeerMax  int    `json:"peerMax"`
	Plain    bool   `json:"plain"`
	Cfg      string `json:"cfg"`      // ok | badCA | badKey
	Addr     string `json:"addr"`     // exporter side: the collector is given as 127.0.0.1 ("ip") or localhost ("host")
	SrvChain string `json:"srvChain"` // collector side: "A" | "Bbundle" (leaf from CA B + CA B's certificate in ServerCert)
	Chain    string `json:"chain"`    // "" | "plusTrusted": the server appends a genuine trusted collector certificate to its (own) leaf
	Valid    string `json:"valid"`    // label of the server certificate's validity period (valid | expired | justExpired | notYet | soon | endsSoon)
	Nb       int    `json:"nb"`       // NotBefore - now and NotAfter - now in seconds, taken when the attempt starts
	Na       int    `json:"na"`
}

// period of a server certificate by label
type period struct{ nb, na time.Duration }

var periods = map[string]period{
	"valid":       {-time.Hour, 12 * time.Hour},
	"expired":     {-48 * time.Hour, -24 * time.Hour},
	"justExpired": {-time.Hour, -time.Minute},
	"notYet":      {24 * time.Hour, 48 * time.Hour},
	"soon":        {2 * time.Minute, 12 * time.Hour}, // becomes valid in two minutes
	"endsSoon":    {-2 * time.Minute, 2 * time.Minute},
}
var minted time.Time

// stamp fills the validity offsets of a cell as they are right now
func stamp(c *cell) {
	if c.Valid == "" {
		c.Valid = "valid"
	}
	p := periods[c.Valid]
	c.Nb = int(time.Until(minted.Add(p.nb)) / time.Second)
	c.Na = int(time.Until(minted.Add(p.na)) / time.Second)
}

// srvLeaf is the server certificate of a cell: kind (chain / names) and validity period
func srvLeaf(c cell) *pki.Leaf {
	if c.Valid != "" && c.Valid != "valid" {
		return srv[c.SrvCert+"/"+c.Valid]
	}
	return srv[c.SrvCert]
}

type obs struct {
	Established bool   `json:"established"`
	Delivered   bool   `json:"delivered"`
	Sent        bool   `json:"sent"`
	Version     int    `json:"version"`
	Detail      string `json:"detail"`
}

var (
	caA, caB *pki.CA
	srv      map[string]*pki.Leaf
	cli      map[string]*pki.Leaf
)

func mint() {
	caA, caB = pki.NewCA("verif-ca-a"), pki.NewCA("verif-ca-b")
	minted = time.Now()
	in := func(label string, o pki.Opts) pki.Opts {
		o.NotBefore, o.NotAfter = minted.Add(periods[label].nb), minted.Add(periods[label].na)
		return o
	}
	good := pki.Opts{DNS: []string{"collector.verif"}, IPs: []net.IP{net.ParseIP("127.0.0.1")}}
	self := good
	self.SelfSign = true
	srv = map[string]*pki.Leaf{
		"trusted":    pki.Issue(caA, "collector.verif", in("valid", good)),
		"otherCA":    pki.Issue(caB, "collector.verif", in("valid", good)),
		"selfSigned": pki.Issue(caA, "collector.verif", in("valid", self)),
		"wrongSAN":   pki.Issue(caA, "collector.verif", in("valid", pki.Opts{DNS: []string{"wrong.verif"}, IPs: []net.IP{net.ParseIP("10.9.9.9")}})),
		"noSAN":      pki.Issue(caA, "collector.verif", in("valid", pki.Opts{})),
	}
	for label := range periods {
		if label != "valid" {
			srv["trusted/"+label] = pki.Issue(caA, "collector.verif", in(label, good))
		}
	}
	srv["otherCA/soon"] = pki.Issue(caB, "collector.verif", in("soon", good))
	srv["hostSAN"] = pki.Issue(caA, "collector.verif", in("valid", pki.Opts{DNS: []string{"localhost"}}))
	cpast := pki.Opts{Client: true, NotBefore: time.Now().Add(-48 * time.Hour), NotAfter: time.Now().Add(-24 * time.Hour)}
	cli = map[string]*pki.Leaf{
		"trusted": pki.Issue(caA, "exporter", pki.Opts{Client: true}),
		"otherCA": pki.Issue(caB, "exporter", pki.Opts{Client: true}),
		"expired": pki.Issue(caA, "exporter", cpast),
	}
}

func tlsVersion(max int) uint16 {
	switch max {
	case 11:
		return tls.VersionTLS11
	case 12:
		return tls.VersionTLS12
	}
	return tls.VersionTLS13
}

func versionNum(v uint16) int {
	switch v {
	case tls.VersionTLS10:
		return 10
	case tls.VersionTLS11:
		return 11
	case tls.VersionTLS12:
		return 12
	case tls.VersionTLS13:
		return 13
	}
	return 0
}

func serverName(n string) string {
	switch n {
	case "match":
		return "collector.verif"
	case "mismatch":
		return "other.verif"
	case "ip":
		return "127.0.0.1"
	}
	return ""
}

// addChain: a rogue collector presents its own leaf followed by a genuine collector certificate it does not own
func addChain(cert *tls.Certificate, c cell) {
	if c.Chain == "plusTrusted" {
		genuine, err := tls.X509KeyPair(srv["trusted"].CertPEM, srv["trusted"].KeyPEM)
		if err != nil {
			panic(err)
		}
		cert.Certificate = append(cert.Certificate, genuine.Certificate...)
	}
}

func looksIPFIX(b []byte) bool { return len(b) >= 4 && b[0] == 0 && b[1] == 10 }

func templateSet() entities.Set {
	ie, _ := registry.GetInfoElement("protocolIdentifier", 0)
	s, _ := entities.MakeTemplateSet(256, []*entities.InfoElement{ie})
	return s
}

// ---------------------------------------------------------------- exporter side (real exporter)

func exporterCell(c cell) obs {
	o := obs{}
	tcfg := &exporter.ExporterTLSClientConfig{ServerName: serverName(c.SrvName), CAData: caA.CertPEM}
	if c.CliCert != "none" {
		tcfg.CertData, tcfg.KeyData = cli[c.CliCert].CertPEM, cli[c.CliCert].KeyPEM
	}
	switch c.Cfg {
	case "badCA":
		tcfg.CAData = []byte("this is not a PEM certificate")
	case "badKey":
		tcfg.CertData, tcfg.KeyData = cli["trusted"].CertPEM, cli["otherCA"].KeyPEM
	}
	var addr string
	sawIPFIX := make(chan bool, 1)
	var closeSrv func()
	switch {
	case (c.Plain || c.Cfg != "ok") && c.Proto == "tls":
		ln, _ := net.Listen("tcp", "127.0.0.1:0")
		addr = ln.Addr().String()
		closeSrv = func() { ln.Close() }
		ln.(*net.TCPListener).SetDeadline(time.Now().Add(1500 * time.Millisecond)) // the exporter may never connect
		go func() {
			conn, err := ln.Accept()
			if err != nil {
				sawIPFIX <- false
				return
			}
			defer conn.Close()
			buf := make([]byte, 4096)
			conn.SetReadDeadline(time.Now().Add(700 * time.Millisecond))
			n, _ := conn.Read(buf)
			sawIPFIX <- looksIPFIX(buf[:n])
		}()
	case c.Plain || c.Cfg != "ok": // plaintext UDP peer against a DTLS exporter
		pc, _ := net.ListenUDP("udp", &net.UDPAddr{IP: net.IPv4(127, 0, 0, 1)})
		addr = pc.LocalAddr().String()
		closeSrv = func() { pc.Close() }
		go func() {
			buf := make([]byte, 4096)
			saw := false
			pc.SetReadDeadline(time.Now().Add(1500 * time.Millisecond))
			for {
				n, _, err := pc.ReadFromUDP(buf)
				if err != nil {
					break
				}
				if looksIPFIX(buf[:n]) {
					saw = true
				}
			}
			sawIPFIX <- saw
		}()
	case c.Proto == "tls":
		cert, err := tls.X509KeyPair(srvLeaf(c).CertPEM, srvLeaf(c).KeyPEM)
		if err != nil {
			panic(err)
		}
		addChain(&cert, c)
		ln, _ := tls.Listen("tcp", "127.0.0.1:0", &tls.Config{Certificates: []tls.Certificate{cert}, MinVersion: tls.VersionTLS10, MaxVersion: tlsVersion(c.PeerMax)})
		addr = ln.Addr().String()
		closeSrv = func() { ln.Close() }
		go func() {
			for {
				conn, err := ln.Accept()
				if err != nil {
					return
				}
				go func() {
					defer conn.Close()
					buf := make([]byte, 4096)
					conn.SetReadDeadline(time.Now().Add(time.Second))
					for {
						if _, err := conn.Read(buf); err != nil {
							return
						}
					}
				}()
			}
		}()
		sawIPFIX <- false
	default: // dtls server
		cert, err := tls.X509KeyPair(srvLeaf(c).CertPEM, srvLeaf(c).KeyPEM)
		if err != nil {
			panic(err)
		}
		addChain(&cert, c)
		ua, _ := net.ResolveUDPAddr("udp", "127.0.0.1:0")
		ln, err := dtls.Listen("udp", ua, &dtls.Config{Certificates: []tls.Certificate{cert}, ExtendedMasterSecret: dtls.RequireExtendedMasterSecret,
			ConnectContextMaker: func() (context.Context, func()) { return context.WithTimeout(context.Background(), 3*time.Second) }})
		if err != nil {
			panic(err)
		}
		addr = ln.Addr().String()
		closeSrv = func() { ln.Close() }
		go func() {
			for {
				conn, err := ln.Accept()
				if err != nil {
					return
				}
				go func() {
					defer conn.Close()
					buf := make([]byte, 4096)
					conn.SetReadDeadline(time.Now().Add(time.Second))
					conn.Read(buf)
				}()
			}
		}()
		sawIPFIX <- false
	}
	proto := "tcp"
	if c.Proto == "dtls" {
		proto = "udp"
	}
	if c.Addr == "host" {
		_, port, _ := net.SplitHostPort(addr)
		addr = net.JoinHostPort("localhost", port)
	}
	done := make(chan struct{})
	var ep *exporter.ExportingProcess
	var err error
	go func() {
		defer close(done)
		ep, err = exporter.InitExportingProcess(exporter.ExporterInput{CollectorAddress: addr, CollectorProtocol: proto, ObservationDomainID: 1, TLSClientConfig: tcfg})
	}()
	select {
	case <-done:
	case <-time.After(40 * time.Second):
		o.Detail = "InitExportingProcess did not return within 40 s"
		closeSrv()
		return o
	}
	if err == nil {
		o.Established = true
		if _, serr := ep.SendSet(templateSet()); serr == nil {
			o.Sent = true
		}
		ep.CloseConnToCollector()
		if c.Proto == "tls" && !c.Plain {
			// negotiated version: what the harness server's MaxVersion and the exporter's MinVersion allow
			o.Version = c.PeerMax
			if o.Version > 13 {
				o.Version = 13
			}
		}
	} else {
		o.Detail = err.Error()
	}
	saw := <-sawIPFIX
	if saw {
		o.Sent = true // an IPFIX message arrived in the clear
	}
	if (c.Plain || c.Cfg != "ok") && !saw {
		o.Sent = false
	}
	closeSrv()
	return o
}

// exporterHistory: one TLS endpoint (certificate from CA A, session tickets enabled as by default) that lives
// across several exporting processes of this application.  The first one trusts CA A, completes its
// session and stays connected long enough for the connection check to read what the server sends
// after the handshake; the following ones are configured with CA B only / with another ServerName /
// with CA A again.  Each cell describes the endpoint's certificate as THAT exporter's configuration sees it.
type attempt struct {
	c cell
	o obs
}

func exporterHistory(peerMax int, untrustedFirst bool) []attempt {
	cert, err := tls.X509KeyPair(srv["trusted"].CertPEM, srv["trusted"].KeyPEM)
	if err != nil {
		panic(err)
	}
	ln, err := tls.Listen("tcp", "127.0.0.1:0", &tls.Config{Certificates: []tls.Certificate{cert}, MinVersion: tls.VersionTLS10, MaxVersion: tlsVersion(peerMax)})
	if err != nil {
		panic(err)
	}
	defer ln.Close()
	go func() {
		for {
			conn, err := ln.Accept()
			if err != nil {
				return
			}
			go func() {
				defer conn.Close()
				buf := make([]byte, 4096)
				conn.SetReadDeadline(time.Now().Add(3 * time.Second))
				for {
					if _, err := conn.Read(buf); err != nil {
						return
					}
				}
			}()
		}
	}()
	type step struct {
		ca   *pki.CA
		name string
	}
	steps := []step{{caA, "match"}, {caB, "match"}, {caA, "mismatch"}, {caB, "unset"}, {caA, "unset"}, {caB, "match"}}
	if untrustedFirst {
		steps = append([]step{{caB, "match"}}, steps...)
	}
	var out []attempt
	for _, st := range steps {
		c := cell{Side: "exporter", Proto: "tls", SrvCert: "trusted", SrvName: st.name, CliCert: "none", PeerMax: peerMax, Cfg: "ok", Addr: "ip", SrvChain: "A"}
		if st.ca == caB {
			c.SrvCert = "otherCA" // the endpoint's certificate does not chain to what this exporter trusts
		}
		stamp(&c)
		o := obs{}
		tcfg := &exporter.ExporterTLSClientConfig{ServerName: serverName(st.name), CAData: st.ca.CertPEM}
		ep, err := exporter.InitExportingProcess(exporter.ExporterInput{CollectorAddress: ln.Addr().String(), CollectorProtocol: "tcp", ObservationDomainID: 1,
			TLSClientConfig: tcfg, CheckConnInterval: 40 * time.Millisecond})
		if err == nil {
			o.Established = true
			o.Version = peerMax
			if _, serr := ep.SendSet(templateSet()); serr == nil {
				o.Sent = true
			}
			time.Sleep(250 * time.Millisecond) // several connection checks: post-handshake messages are read
			ep.CloseConnToCollector()
		} else {
			o.Detail = err.Error()
		}
		out = append(out, attempt{c, o})
	}
	return out
}

func sharedConfigHistory() []attempt {
	cert, err := tls.X509KeyPair(srv["trusted"].CertPEM, srv["trusted"].KeyPEM)
	if err != nil {
		panic(err)
	}
	serve := func(ip string) net.Listener {
		ln, err := tls.Listen("tcp", ip+":0", &tls.Config{Certificates: []tls.Certificate{cert}, MinVersion: tls.VersionTLS12})
		if err != nil {
			return nil
		}
		go func() {
			for {
				conn, err := ln.Accept()
				if err != nil {
					return
				}
				go func() {
					defer conn.Close()
					buf := make([]byte, 4096)
					conn.SetReadDeadline(time.Now().Add(3 * time.Second))
					for {
						if _, err := conn.Read(buf); err != nil {
							return
						}
					}
				}()
			}
		}()
		return ln
	}
	la, lb := serve("127.0.0.1"), serve("127.0.0.2")
	if la == nil || lb == nil { // no second loopback address on this machine: nothing to report
		return nil
	}
	defer la.Close()
	defer lb.Close()
	shared := &exporter.ExporterTLSClientConfig{CAData: caA.CertPEM} // ServerName unset, one value for both
	var out []attempt
	for _, st := range []struct {
		ln   net.Listener
		addr string
	}{{la, "ip"}, {lb, "ip2"}, {la, "ip"}, {lb, "ip2"}} {
		c := cell{Side: "exporter", Proto: "tls", SrvCert: "trusted", SrvName: "unset", CliCert: "none", PeerMax: 13, Cfg: "ok", Addr: st.addr, SrvChain: "A"}
		stamp(&c)
		o := obs{}
		ep, err := exporter.InitExportingProcess(exporter.ExporterInput{CollectorAddress: st.ln.Addr().String(), CollectorProtocol: "tcp", ObservationDomainID: 1, TLSClientConfig: shared})
		if err == nil {
			o.Established, o.Version = true, 13
			if _, serr := ep.SendSet(templateSet()); serr == nil {
				o.Sent = true
			}
			ep.CloseConnToCollector()
		} else {
			o.Detail = err.Error()
		}
		out = append(out, attempt{c, o})
	}
	return out
}

// --------------------------------------------------------------- collector side (real collector)

func collectorCell(c cell) obs {
	o := obs{}
	proto := "tcp"
	if c.Proto == "dtls" {
		proto = "udp"
	}
	in := collector.CollectorInput{Address: "127.0.0.1:0", Protocol: proto, MaxBufferSize: 65535, IsEncrypted: true,
		ServerCert: srv["trusted"].CertPEM, ServerKey: srv["trusted"].KeyPEM}
	if c.CliCA {
		in.CACert = caA.CertPEM
	}
	if c.SrvChain == "Bbundle" { // the collector's own certificate comes from CA B and is deployed together with CA B's certificate
		in.ServerCert = append(append([]byte{}, srv["otherCA"].CertPEM...), caB.CertPEM...)
		in.ServerKey = srv["otherCA"].KeyPEM
	}
	cp, err := collector.InitCollectingProcess(in)
	if err != nil {
		o.Detail = err.Error()
		return o
	}
	go cp.Start()
	for k := 0; cp.GetAddress() == nil && k < 2000; k++ {
		time.Sleep(time.Millisecond)
	}
	addr := cp.GetAddress().String()
	msg := absv.Message(1, 0, 7, 2, absv.TemplateBody(256, []absv.Spec{{ID: 4, Len: 1}}))
	var wg sync.WaitGroup
	wg.Add(1)
	go func() { // the harness peer
		defer wg.Done()
		switch {
		case c.Plain && c.Proto == "tls":
			if conn, err := net.Dial("tcp", addr); err == nil {
				conn.Write(msg)
				time.Sleep(300 * time.Millisecond)
				conn.Close()
			}
		case c.Plain:
			if conn, err := net.Dial("udp", addr); err == nil {
				conn.Write(msg)
				time.Sleep(300 * time.Millisecond)
				conn.Close()
			}
		case c.Proto == "tls":
			pool := x509.NewCertPool()
			pool.AppendCertsFromPEM(caA.CertPEM)
			pool.AppendCertsFromPEM(caB.CertPEM)
			cfg := &tls.Config{RootCAs: pool, MinVersion: tls.VersionTLS10, MaxVersion: tlsVersion(c.PeerMax)}
			if c.CliCert != "none" {
				cert, _ := tls.X509KeyPair(cli[c.CliCert].CertPEM, cli[c.CliCert].KeyPEM)
				cfg.Certificates = []tls.Certificate{cert}
			}
			conn, err := tls.DialWithDialer(&net.Dialer{Timeout: 2 * time.Second}, "tcp", addr, cfg)
			if err != nil {
				o.Detail = err.Error()
				return
			}
			o.Established = true
			o.Version = versionNum(conn.ConnectionState().Version)
			conn.Write(msg)
			time.Sleep(300 * time.Millisecond)
			conn.Close()
		default: // dtls client with a verified server
			pool := x509.NewCertPool()
			pool.AppendCertsFromPEM(caA.CertPEM)
			ua, _ := net.ResolveUDPAddr("udp", addr)
			conn, err := dtls.Dial("udp", ua, &dtls.Config{RootCAs: pool, ServerName: "collector.verif", ExtendedMasterSecret: dtls.RequireExtendedMasterSecret,
				ConnectContextMaker: func() (context.Context, func()) { return context.WithTimeout(context.Background(), 3*time.Second) }})
			if err != nil {
				o.Detail = err.Error()
				return
			}
			o.Established = true
			conn.Write(msg)
			time.Sleep(300 * time.Millisecond)
			conn.Close()
		}
	}()
	select {
	case m := <-cp.GetMsgChan():
		o.Delivered = m.GetObsDomainID() == 7
	case <-time.After(900 * time.Millisecond):
	}
	wg.Wait()
	stopped := make(chan struct{})
	go func() { cp.Stop(); close(stopped) }()
	select {
	case <-stopped:
	case <-cp.GetMsgChan():
	case <-time.After(500 * time.Millisecond): // the DTLS listener may block in Accept across Stop (noted, not claimed)
	}
	return o
}

func main() {
	flag.Parse()
	registry.LoadRegistry()
	mint()
	// the HOST's trust store holds CA B (and nothing else): what the machine trusts is not what the exporter was configured with
	hostCA := filepath.Join(os.TempDir(), fmt.Sprintf("verif-hostca-%d.pem", os.Getpid()))
	if err := os.WriteFile(hostCA, caB.CertPEM, 0o600); err != nil {
		panic(err)
	}
	defer os.Remove(hostCA)
	os.Setenv("SSL_CERT_FILE", hostCA)
	os.Setenv("SSL_CERT_DIR", filepath.Join(os.TempDir(), "verif-no-such-dir"))
	w, err := vt.Open(*out)
	if err != nil {
		panic(err)
	}
	thorough := *tier == "thorough"
	var cells []cell
	names := []string{"match", "unset", "mismatch"}
	type sv struct{ kind, valid string }
	certs := []sv{{"trusted", "valid"}, {"otherCA", "valid"}, {"selfSigned", "valid"}, {"wrongSAN", "valid"}, {"noSAN", "valid"},
		{"trusted", "expired"}, {"trusted", "notYet"},
		// the boundary of the validity period: no tolerance either way
		{"trusted", "justExpired"}, {"trusted", "soon"}, {"trusted", "endsSoon"}, {"otherCA", "soon"}}
	for _, sc := range certs {
		for _, sn := range names {
			for _, pm := range []int{11, 12, 13} {
				cc := "none"
				if (len(sc.kind)+len(sc.valid)+len(sn)+pm)%3 == 0 {
					cc = "trusted" // the exporter presenting a client certificate changes nothing about server verification
				}
				cells = append(cells, cell{Side: "exporter", Proto: "tls", SrvCert: sc.kind, Valid: sc.valid, SrvName: sn, CliCert: cc, PeerMax: pm})
			}
			if thorough || sn != "unset" || sc.kind == "trusted" {
				cells = append(cells, cell{Side: "exporter", Proto: "dtls", SrvCert: sc.kind, Valid: sc.valid, SrvName: sn, CliCert: "none", PeerMax: 12})
			}
		}
	}
	for _, ca := range []bool{true, false} {
		for _, cc := range []string{"none", "trusted", "otherCA", "expired"} {
			for _, pm := range []int{11, 12, 13} {
				cells = append(cells, cell{Side: "collector", Proto: "tls", SrvCert: "trusted", SrvName: "match", CliCert: cc, CliCA: ca, PeerMax: pm})
			}
		}
	}
	// the collector's certificate chain is no trust anchor for clients
	for _, cc := range []string{"none", "trusted", "otherCA"} {
		for _, pm := range []int{12, 13} {
			cells = append(cells, cell{Side: "collector", Proto: "tls", SrvCert: "trusted", SrvName: "match", CliCert: cc, CliCA: true, PeerMax: pm, SrvChain: "Bbundle"})
		}
	}
	// a leaf that does not verify, with a genuine certificate appended to the chain; ServerName as name and as IP literal
	for _, pr := range []string{"tls", "dtls"} {
		for _, sc := range []string{"selfSigned", "otherCA", "trusted"} {
			for _, sn := range []string{"match", "ip"} {
				cells = append(cells, cell{Side: "exporter", Proto: pr, SrvCert: sc, SrvName: sn, CliCert: "none", PeerMax: 12 + len(sn)%2, Chain: "plusTrusted"})
			}
		}
	}
	// the collector given by host name: the certificate must carry that name (not merely the address it resolves to)
	for _, sc := range []string{"trusted", "hostSAN", "noSAN"} {
		for _, sn := range names {
			for _, ad := range []string{"ip", "host"} {
				if sc == "trusted" && ad == "ip" {
					continue // already in the matrix above
				}
				cells = append(cells, cell{Side: "exporter", Proto: "tls", SrvCert: sc, SrvName: sn, CliCert: "none", PeerMax: 13, Addr: ad})
			}
		}
	}
	cells = append(cells,
		cell{Side: "collector", Proto: "dtls", SrvCert: "trusted", SrvName: "match", CliCert: "none", PeerMax: 12},
		cell{Side: "collector", Proto: "tls", SrvCert: "trusted", SrvName: "match", CliCert: "none", CliCA: true, PeerMax: 13, Plain: true},
		cell{Side: "collector", Proto: "tls", SrvCert: "trusted", SrvName: "match", CliCert: "none", CliCA: false, PeerMax: 13, Plain: true},
		cell{Side: "collector", Proto: "dtls", SrvCert: "trusted", SrvName: "match", CliCert: "none", PeerMax: 12, Plain: true},
		cell{Side: "exporter", Proto: "tls", SrvCert: "trusted", SrvName: "match", CliCert: "none", PeerMax: 13, Plain: true},
		cell{Side: "exporter", Proto: "tls", SrvCert: "trusted", SrvName: "unset", CliCert: "trusted", PeerMax: 13, Plain: true},
		cell{Side: "exporter", Proto: "dtls", SrvCert: "trusted", SrvName: "match", CliCert: "none", PeerMax: 12, Plain: true},
		// security settings present but unusable: the exporter must refuse, never connect in the clear
		cell{Side: "exporter", Proto: "tls", SrvCert: "trusted", SrvName: "match", CliCert: "none", PeerMax: 13, Cfg: "badCA"},
		cell{Side: "exporter", Proto: "tls", SrvCert: "trusted", SrvName: "unset", CliCert: "trusted", PeerMax: 13, Cfg: "badCA"},
		cell{Side: "exporter", Proto: "tls", SrvCert: "trusted", SrvName: "match", CliCert: "trusted", PeerMax: 13, Cfg: "badKey"},
		cell{Side: "exporter", Proto: "dtls", SrvCert: "trusted", SrvName: "match", CliCert: "none", PeerMax: 12, Cfg: "badCA"},
	)
	for i := range cells {
		if cells[i].Cfg == "" {
			cells[i].Cfg = "ok"
		}
		if cells[i].Addr == "" {
			cells[i].Addr = "ip"
		}
		if cells[i].SrvChain == "" {
			cells[i].SrvChain = "A"
		}
	}
	w.Reset(vt.Ev{})
	// cells are independent: run up to 16 at a time, log in cell order
	results := make([]obs, len(cells))
	sem := make(chan struct{}, 16)
	var wg sync.WaitGroup
	for i, c := range cells {
		wg.Add(1)
		sem <- struct{}{}
		go func(i int, c cell) {
			defer wg.Done()
			defer func() { <-sem }()
			defer func() {
				if r := recover(); r != nil {
					results[i] = obs{Detail: fmt.Sprint("panic: ", r)}
				}
			}()
			if c.Side == "exporter" {
				stamp(&cells[i])
				results[i] = exporterCell(cells[i])
			} else {
				stamp(&cells[i])
				results[i] = collectorCell(c)
			}
		}(i, c)
	}
	wg.Wait()
	for i, c := range cells {
		w.Emit(vt.Ev{"e": "Cell", "srv": -1, "cell": c, "obs": results[i]})
	}
	// histories: several exporting processes, one after the other, against ONE long-lived endpoint
	nh := 0
	for srvID, pm := range []int{13, 12, 13} {
		for _, a := range exporterHistory(pm, srvID == 2) {
			w.Emit(vt.Ev{"e": "Cell", "srv": srvID, "cell": a.c, "obs": a.o})
			nh++
		}
	}
	// one configuration value reused for two collectors at two addresses (ServerName unset): the second one presents
	// a trusted certificate that is valid for the first address only
	for k, a := range sharedConfigHistory() {
		w.Emit(vt.Ev{"e": "Cell", "srv": 10 + k, "cell": a.c, "obs": a.o})
		nh++
	}
	w.Close()
	vt.PrintSummary(vt.Summary{Events: w.Events(), Traces: 1, Evaluations: len(cells) + nh, Distinct: len(cells) + nh})
}
