//go:build verif

// c19: Kafka publication. The real KafkaProducer.PublishIPFIXMessages with both shipped convertors,
// writing into a fake sarama.AsyncProducer owned by the harness; payloads are read back by the
// harness's own protobuf wire reader and by the consumer-side decoder.
package main

import (
	"flag"
	"fmt"
	"hash/fnv"
	"math/rand"
	"net"
	"time"

	"github.com/IBM/sarama"
	"google.golang.org/protobuf/proto"
	"google.golang.org/protobuf/reflect/protoreflect"

	"github.com/vmware/go-ipfix/pkg/entities"
	"github.com/vmware/go-ipfix/pkg/kafka/consumer"
	"github.com/vmware/go-ipfix/pkg/kafka/producer"
	"github.com/vmware/go-ipfix/pkg/kafka/producer/convertor"
	convtest "github.com/vmware/go-ipfix/pkg/kafka/producer/convertor/test"
	"github.com/vmware/go-ipfix/pkg/kafka/producer/protobuf"
	"github.com/vmware/go-ipfix/pkg/registry"

	"verif/harness/vt"
)

var (
	out  = flag.String("out", "trace.ndjson", "trace file")
	seed = flag.Int64("seed", 1, "seed")
	tier = flag.String("tier", "quick", "quick|thorough")
)

// fakeProducer implements the part of sarama.AsyncProducer the library uses.
type fakeProducer struct {
	sarama.AsyncProducer
	in   chan *sarama.ProducerMessage
	succ chan *sarama.ProducerMessage // acknowledgements (nil: the stream does not ask for them); 256 deep like sarama's
}

func (f *fakeProducer) Input() chan<- *sarama.ProducerMessage     { return f.in }
func (f *fakeProducer) Successes() <-chan *sarama.ProducerMessage { return f.succ }
func (f *fakeProducer) Errors() <-chan *sarama.ProducerError      { return nil }
func (f *fakeProducer) Close() error                              { return nil }
func (f *fakeProducer) AsyncClose()                               {}

// field numbers of the shipped .proto schemas (FlowType1 / FlowType2), written down from the .proto
var numField = map[int]string{1: "TimeReceived", 2: "SequenceNumber", 3: "ObsDomainID", 4: "TimeFlowStartInSecs", 5: "TimeFlowEndInSecs",
	27: "TimeFlowStartInMilliSecs", 28: "TimeFlowEndInMilliSecs", 35: "FlowEndReason", 8: "SrcPort", 9: "DstPort", 10: "Proto",
	11: "PacketsTotal", 12: "BytesTotal", 13: "PacketsDelta", 14: "BytesDelta", 15: "ReversePacketsTotal", 16: "ReverseBytesTotal",
	17: "ReversePacketsDelta", 18: "ReverseBytesDelta", 34: "DstServicePort"}
var strField = map[int]string{33: "ExportAddress", 36: "TcpState", 6: "SrcIP", 7: "DstIP", 19: "SrcPodName", 20: "SrcPodNamespace", 21: "SrcNodeName",
	22: "DstPodName", 23: "DstPodNamespace", 24: "DstNodeName", 25: "DstClusterIP", 26: "DstServicePortName", 29: "IngressPolicyName",
	30: "IngressPolicyNamespace", 31: "EgressPolicyName", 32: "EgressPolicyNamespace"}

// readWire is the harness's own protobuf wire reader (varint and length-delimited fields only).
func readWire(b []byte) (nums map[string]int, strs map[string]string, ok bool) {
	nums, strs = map[string]int{}, map[string]string{}
	i := 0
	varint := func() (uint64, bool) {
		var x uint64
		for s := uint(0); i < len(b) && s < 64; s += 7 {
			c := b[i]
			i++
			x |= uint64(c&0x7f) << s
			if c < 0x80 {
				return x, true
			}
		}
		return 0, false
	}
	for i < len(b) {
		key, ok := varint()
		if !ok {
			return nums, strs, false
		}
		fn, wt := int(key>>3), int(key&7)
		switch wt {
		case 0:
			v, ok := varint()
			if !ok {
				return nums, strs, false
			}
			name, known := numField[fn]
			if !known {
				name = fmt.Sprintf("unknown%d", fn)
			}
			nums[name] = int(v)
		case 2:
			n, ok := varint()
			if !ok || i+int(n) > len(b) {
				return nums, strs, false
			}
			name, known := strField[fn]
			if !known {
				name = fmt.Sprintf("unknown%d", fn)
			}
			strs[name] = string(b[i : i+int(n)])
			i += int(n)
		default:
			return nums, strs, false
		}
	}
	return nums, strs, true
}

// reflectFields reads every populated field of a decoded protobuf message.
func reflectFields(m proto.Message) (map[string]int, map[string]string) {
	nums, strs := map[string]int{}, map[string]string{}
	m.ProtoReflect().Range(func(fd protoreflect.FieldDescriptor, v protoreflect.Value) bool {
		switch fd.Kind() {
		case protoreflect.StringKind:
			strs[string(fd.Name())] = v.String()
		default:
			nums[string(fd.Name())] = int(v.Uint())
		}
		return true
	})
	return nums, strs
}

type recAbs struct {
	Nums map[string]int   `json:"nums"`
	Strs map[string][]int `json:"strs"` // strings are logged as byte sequences
}

func sb(s string) []int { return vt.B([]byte(s)) }

func strMapB(m map[string]string) map[string][]int {
	out := map[string][]int{}
	for k, v := range m {
		out[k] = sb(v)
	}
	return out
}

func ie(name string, ent uint32) *entities.InfoElement {
	e, err := registry.GetInfoElement(name, ent)
	if err != nil {
		panic(err)
	}
	return e
}

var u64Names = []string{"packetTotalCount", "octetTotalCount", "packetDeltaCount", "octetDeltaCount"}
var revNames = []string{"reversePacketTotalCount", "reverseOctetTotalCount", "reversePacketDeltaCount", "reverseOctetDeltaCount"}
var strNames = []string{"sourcePodNamespace", "sourcePodName", "sourceNodeName", "destinationPodNamespace", "destinationPodName", "destinationNodeName",
	"destinationServicePortName", "ingressNetworkPolicyName", "ingressNetworkPolicyNamespace", "egressNetworkPolicyName", "egressNetworkPolicyNamespace"}

func randIP(r *rand.Rand, v6 bool) net.IP {
	n := 4
	if v6 {
		n = 16
	}
	b := make(net.IP, n)
	switch r.Intn(7) {
	case 2: // IPv6 text forms with "::" in the middle and digit-only last groups (fe80::1:2, fd74:ca9b:172:18::2:15), which
		// a reader taking the text for host:port would cut short; ::1 and fe80::5 likewise
		if v6 {
			if r.Intn(2) == 0 {
				copy(b, []byte{0xfe, 0x80})
			} else if r.Intn(2) == 0 {
				copy(b, []byte{0xfd, 0x74, 0xca, 0x9b, 0x01, 0x72, 0x00, 0x18})
			}
			dec := []byte{0, 1, 2, 0x15, 0x80, 0x99}
			b[15] = dec[r.Intn(len(dec))]
			b[14] = []byte{0, 0, 0x44}[r.Intn(3)]
			if r.Intn(3) > 0 {
				b[13] = dec[1+r.Intn(len(dec)-1)]
			}
			return b
		}
	case 0: // the unspecified address (what non-Service flows carry as cluster IP): 0.0.0.0 and :: share their leading bytes
		return b
	case 1: // an IPv4 address and an IPv6 address that agree on their first four bytes, the rest of the latter being zero
		copy(b, []byte{0x20, 1, 0x0d, byte(0xb8 + r.Intn(2))})
		return b
	}
	r.Read(b)
	if v6 {
		b[0] = 0x20 // keep clear of IPv4-mapped forms, whose text form is an IPv4 address
	}
	return b
}

// poor: a record of a template with fewer mapped elements (no names, no service port): those fields are then absent
func randRecord(r *rand.Rand, v6 bool, poor bool) (entities.Record, recAbs) {
	a := recAbs{Nums: map[string]int{}, Strs: map[string][]int{}}
	var elems []entities.InfoElementWithValue
	num := func(v int) int {
		switch r.Intn(5) {
		case 0:
			return 0
		case 1:
			return 1 << 30
		}
		return r.Intn(1 << 30)
	}
	add32 := func(n string) {
		v := num(0)
		elems = append(elems, entities.NewDateTimeSecondsInfoElement(ie(n, 0), uint32(v)))
		a.Nums[n] = v
	}
	add32("flowStartSeconds")
	add32("flowEndSeconds")
	src, dst, cip := randIP(r, v6), randIP(r, v6), randIP(r, v6)
	sn, dn, cn := "sourceIPv4Address", "destinationIPv4Address", "destinationClusterIPv4"
	if v6 {
		sn, dn, cn = "sourceIPv6Address", "destinationIPv6Address", "destinationClusterIPv6"
	}
	elems = append(elems, entities.NewIPAddressInfoElement(ie(sn, 0), src), entities.NewIPAddressInfoElement(ie(dn, 0), dst),
		entities.NewIPAddressInfoElement(ie(cn, registry.AntreaEnterpriseID), cip))
	a.Strs[sn], a.Strs[dn], a.Strs[cn] = sb(src.String()), sb(dst.String()), sb(cip.String())
	sp, dp, pr, svc := r.Intn(65536), r.Intn(65536), r.Intn(256), r.Intn(65536)
	elems = append(elems, entities.NewUnsigned16InfoElement(ie("sourceTransportPort", 0), uint16(sp)), entities.NewUnsigned16InfoElement(ie("destinationTransportPort", 0), uint16(dp)),
		entities.NewUnsigned8InfoElement(ie("protocolIdentifier", 0), uint8(pr)))
	a.Nums["sourceTransportPort"], a.Nums["destinationTransportPort"], a.Nums["protocolIdentifier"] = sp, dp, pr
	if !poor {
		elems = append(elems, entities.NewUnsigned16InfoElement(ie("destinationServicePort", registry.AntreaEnterpriseID), uint16(svc)))
		a.Nums["destinationServicePort"] = svc
	}
	for _, n := range u64Names {
		v := num(0)
		elems = append(elems, entities.NewUnsigned64InfoElement(ie(n, 0), uint64(v)))
		a.Nums[n] = v
	}
	for _, n := range revNames {
		v := num(0)
		elems = append(elems, entities.NewUnsigned64InfoElement(ie(n, registry.IANAReversedEnterpriseID), uint64(v)))
		a.Nums[n] = v
	}
	huge := r.Intn(30) == 0 // a payload beyond 65535 bytes: several long strings in one record
	for i, n := range strNames {
		if poor {
			break
		}
		v := ""
		if r.Intn(4) != 0 {
			v = fmt.Sprintf("%s-%d", n[:3], r.Intn(1000))
		}
		if huge && i < 3 {
			b := make([]byte, 25000+r.Intn(35000))
			for j := range b {
				b[j] = byte('a' + (i+j)%26)
			}
			v = string(b)
		}
		elems = append(elems, entities.NewStringInfoElement(ie(n, registry.AntreaEnterpriseID), v))
		a.Strs[n] = sb(v)
	}
	// two elements the schemas have no field for: they are skipped wherever they stand, and only they
	elems = append(elems, entities.NewUnsigned8InfoElement(ie("flowEndReason", 0), uint8(r.Intn(6))),
		entities.NewUnsigned8InfoElement(ie("ipClassOfService", 0), uint8(r.Intn(256))))
	r.Shuffle(len(elems), func(i, j int) { elems[i], elems[j] = elems[j], elems[i] })
	return entities.NewDataRecordFromElements(256, elems, true), a
}

func main() {
	flag.Parse()
	thorough := *tier == "thorough"
	registry.LoadRegistry()
	w, err := vt.Open(*out)
	if err != nil {
		panic(err)
	}
	r := rand.New(rand.NewSource(*seed))
	dist := map[uint64]bool{}
	evals := 0
	nstreams, nmsgs := 8, 25
	if thorough {
		nstreams, nmsgs = 60, 80
	}
	type schema struct {
		name string
		conv convertor.IPFIXToKafkaConvertor
		mk   func() proto.Message
	}
	schemas := []schema{
		{"FlowType1", convtest.NewFlowType1Convertor(), func() proto.Message { return &protobuf.FlowType1{} }},
		{"FlowType2", convtest.NewFlowType2Convertor(), func() proto.Message { return &protobuf.FlowType2{} }},
	}
	for si := 0; si < nstreams; si++ {
		sc := schemas[si%2]
		topic := fmt.Sprintf("topic-%d", si)
		acks := si%4 == 1 // the application asks for acknowledgements (KafkaLogSuccesses): one per record, whatever the message size
		kp, err := producer.NewKafkaProducer(producer.ProducerInput{KafkaBrokers: []string{"unused:9092"}, KafkaVersion: sarama.DefaultVersion, KafkaTopic: topic, ProtoSchemaConvertor: sc.conv, KafkaLogSuccesses: acks})
		if err != nil {
			panic(err)
		}
		fp := &fakeProducer{in: make(chan *sarama.ProducerMessage)}
		if acks {
			fp.in = make(chan *sarama.ProducerMessage, 256)
			fp.succ = make(chan *sarama.ProducerMessage, 256)
		}
		kp.SetSaramaProducer(fp)
		consMsg := sc.mk()
		kc := consumer.NewKafkaConsumer(consumer.ConsumerInput{KafkaTopic: topic, KafkaProtoSchema: consMsg, MsgDelimitWithLen: true})
		w.Reset(vt.Ev{"topic": topic, "schema": sc.name})
		msgCh := make(chan *entities.Message)
		pubDone := make(chan struct{})
		go func() { kp.PublishIPFIXMessages(msgCh); close(pubDone) }()
		outDone := make(chan struct{})
		go func() { // what reaches the Kafka producer's input
			defer close(outDone)
			for pm := range fp.in {
				val, _ := pm.Value.Encode()
				ev := vt.Ev{"e": "Out", "topic": pm.Topic, "value": vt.B(val)}
				nums, strs, ok := map[string]int{}, map[string]string{}, false
				if len(val) >= 4 {
					nums, strs, ok = readWire(val[4:])
				}
				ev["wireok"] = ok
				ev["fields"] = vt.Ev{"nums": nums, "strs": strMapB(strs)}
				// ONE consumer (and one schema object) decodes every payload of the stream, as a real consumer does
				cm, kc2 := consMsg, kc
				func() {
					defer func() {
						if rec := recover(); rec != nil {
							ev["consok"] = false
						}
					}()
					cerr := kc2.DecodeAndPrintMsg(&sarama.ConsumerMessage{Topic: pm.Topic, Value: val})
					ev["consok"] = cerr == nil
				}()
				cn, cs := reflectFields(cm)
				ev["cons"] = vt.Ev{"nums": cn, "strs": strMapB(cs)}
				w.Emit(ev)
				if fp.succ != nil {
					fp.succ <- pm // the broker acknowledges
				}
			}
		}()
		v6 := si%4 >= 2
		h := fnv.New64a()
		for j := 0; j < nmsgs; j++ {
			evals++
			m := entities.NewMessage(true)
			tm, sq, dm := 1700000000+r.Intn(1000), r.Intn(1<<30), r.Intn(1<<30)
			addr := randIP(r, v6).String()
			m.SetExportTime(uint32(tm))
			m.SetSequenceNum(uint32(sq))
			m.SetObsDomainID(uint32(dm))
			m.SetExportAddress(addr)
			set := entities.NewSet(true)
			abs := vt.Ev{"time": tm, "seq": sq, "dom": dm, "addr": sb(addr)}
			if r.Intn(5) == 0 {
				set.PrepareSet(entities.Template, 256)
				el, _ := entities.DecodeAndCreateInfoElementWithValue(ie("protocolIdentifier", 0), nil)
				set.AddRecordV2([]entities.InfoElementWithValue{el}, 256)
				abs["kind"], abs["recs"] = "template", []int{}
			} else {
				set.PrepareSet(entities.Data, 256)
				n := r.Intn(5)
				if r.Intn(10) == 0 {
					n = 20 + r.Intn(30)
				}
				if acks && j == nmsgs/2 {
					n = 560 + r.Intn(100) // more records in one message than the client's channels hold
				}
				recs := make([]any, 0, n)
				poor := r.Intn(3) == 0 // the whole message comes from a poorer template
				for k := 0; k < n; k++ {
					rec, ra := randRecord(r, v6, poor)
					set.AddRecordV2(rec.GetOrderedElementList(), 256)
					recs = append(recs, ra)
				}
				abs["kind"], abs["recs"] = "data", recs
			}
			m.AddSet(set)
			fmt.Fprint(h, abs)
			w.Emit(vt.Ev{"e": "Publish", "m": abs})
			select {
			case msgCh <- m:
			case <-time.After(5 * time.Second):
				w.Emit(vt.Ev{"e": "Hang", "what": "PublishIPFIXMessages does not take messages"})
			}
		}
		// a message whose header and records are all protobuf defaults (time 0, sequence 0, domain 0, no address, zero
		// ports): still one Kafka message per record, with an empty payload behind the length prefix
		{
			evals++
			m := entities.NewMessage(true)
			m.SetExportTime(0)
			m.SetSequenceNum(0)
			m.SetObsDomainID(0)
			m.SetExportAddress("")
			set := entities.NewSet(true)
			set.PrepareSet(entities.Data, 256)
			recs := []any{}
			for k := 0; k < 2; k++ {
				els := []entities.InfoElementWithValue{entities.NewUnsigned8InfoElement(ie("protocolIdentifier", 0), 0),
					entities.NewUnsigned16InfoElement(ie("sourceTransportPort", 0), 0)}
				set.AddRecordV2(els, 256)
				recs = append(recs, recAbs{Nums: map[string]int{"protocolIdentifier": 0, "sourceTransportPort": 0}, Strs: map[string][]int{}})
			}
			m.AddSet(set)
			abs := vt.Ev{"time": 0, "seq": 0, "dom": 0, "addr": sb(""), "kind": "data", "recs": recs}
			w.Emit(vt.Ev{"e": "Publish", "m": abs})
			select {
			case msgCh <- m:
			case <-time.After(5 * time.Second):
				w.Emit(vt.Ev{"e": "Hang", "what": "PublishIPFIXMessages does not take messages"})
			}
		}
		dist[h.Sum64()] = true
		close(msgCh)
		select {
		case <-pubDone:
		case <-time.After(5 * time.Second):
			w.Emit(vt.Ev{"e": "Hang", "what": "PublishIPFIXMessages does not return"})
		}
		close(fp.in)
		<-outDone
		w.Emit(vt.Ev{"e": "End"})
	}
	w.Close()
	vt.PrintSummary(vt.Summary{Events: w.Events(), Traces: w.Traces(), Evaluations: evals, Distinct: len(dist)})
}
