//go:build verif

// c01: end-to-end fidelity. A real ExportingProcess connected to a real CollectingProcess over
// tcp / udp / tls / dtls on IPv4 and IPv6 loopback; what the application hands over is logged as
// ESend, what the collector's consumer receives as CDeliver.
package main

import (
	"flag"
	"fmt"
	"hash/fnv"
	"math/rand"
	"net"
	"time"

	"github.com/vmware/go-ipfix/pkg/collector"
	"github.com/vmware/go-ipfix/pkg/entities"
	"github.com/vmware/go-ipfix/pkg/exporter"
	"github.com/vmware/go-ipfix/pkg/registry"

	"verif/harness/coll"
	"verif/harness/gen"
	"verif/harness/pki"
	"verif/harness/sets"
	"verif/harness/vt"
)

var (
	out  = flag.String("out", "trace.ndjson", "trace file")
	seed = flag.Int64("seed", 1, "seed")
	tier = flag.String("tier", "quick", "quick|thorough")
)

type session struct {
	w       *vt.Writer
	cp      *collector.CollectingProcess
	ep      *exporter.ExportingProcess
	lossy   bool
	pending int
	evals   int
	dist    map[uint64]bool
}

func open(w *vt.Writer, transport string, v6 bool, dom uint32, dist map[uint64]bool) (*session, error) {
	host := "127.0.0.1"
	if v6 {
		host = "[::1]"
	}
	proto := "tcp"
	if transport == "udp" || transport == "dtls" {
		proto = "udp"
	}
	enc := transport == "tls" || transport == "dtls"
	in := collector.CollectorInput{Address: host + ":0", Protocol: proto, MaxBufferSize: 65535, IsIPv6: v6, IsEncrypted: enc}
	var ca *pki.CA
	if enc {
		ca = pki.NewCA("verif-ca")
		ip := net.ParseIP("127.0.0.1")
		if v6 {
			ip = net.ParseIP("::1")
		}
		srv := pki.Issue(ca, "collector", pki.Opts{DNS: []string{"collector.verif"}, IPs: []net.IP{ip}})
		in.ServerCert, in.ServerKey = srv.CertPEM, srv.KeyPEM
	}
	cp, err := collector.InitCollectingProcess(in)
	if err != nil {
		return nil, err
	}
	go cp.Start()
	deadline := time.Now().Add(3 * time.Second)
	for cp.GetAddress() == nil && time.Now().Before(deadline) {
		time.Sleep(time.Millisecond)
	}
	if cp.GetAddress() == nil {
		return nil, fmt.Errorf("collector did not start")
	}
	ein := exporter.ExporterInput{CollectorAddress: cp.GetAddress().String(), CollectorProtocol: proto, ObservationDomainID: dom, IsIPv6: v6}
	if enc {
		ein.TLSClientConfig = &exporter.ExporterTLSClientConfig{CAData: ca.CertPEM, ServerName: "collector.verif"}
	}
	ep, err := exporter.InitExportingProcess(ein)
	if err != nil {
		cp.Stop()
		return nil, err
	}
	s := &session{w: w, cp: cp, ep: ep, lossy: proto == "udp", dist: dist}
	w.Reset(vt.Ev{"transport": transport, "v6": v6, "dom": vt.Limbs(dom), "lossy": s.lossy})
	return s, nil
}

func (s *session) send(d sets.Desc) bool {
	s.evals++
	h := fnv.New64a()
	fmt.Fprint(h, d.Stype, d.HdrID, len(d.Recs))
	for _, r := range d.Recs {
		fmt.Fprint(h, r.Tid, len(r.IEs), r.Vals)
	}
	s.dist[h.Sum64()] = true
	n, err := s.ep.SendSet(d.Build())
	s.w.Emit(vt.Ev{"e": "ESend", "set": d.JSON(), "ret": n, "err": err != nil})
	if err == nil {
		s.pending++
	}
	return err == nil
}

// sendBurst hands several (small) sets to SendSet back to back - built beforehand, logged afterwards; deliveries are
// read by this goroutine only in collect, so the log order stays "handed over, then delivered"
func (s *session) sendBurst(ds []sets.Desc) {
	built := make([]entities.Set, len(ds))
	for i, d := range ds {
		built[i] = d.Build()
	}
	type res struct {
		n   int
		err error
	}
	out := make([]res, len(ds))
	for i := range built {
		out[i].n, out[i].err = s.ep.SendSet(built[i])
	}
	for i, d := range ds {
		s.evals++
		s.w.Emit(vt.Ev{"e": "ESend", "set": d.JSON(), "ret": out[i].n, "err": out[i].err != nil})
		if out[i].err == nil {
			s.pending++
		}
	}
}

func (s *session) deliverOne(m *entities.Message) {
	ev := vt.Ev{"dom": vt.Limbs(m.GetObsDomainID()), "seq": vt.Limbs(m.GetSequenceNum())}
	if m.GetSet().GetSetType() == entities.Template {
		tid, fields := coll.ProjectTemplate(m)
		ev["kind"], ev["tid"], ev["fields"] = "Tmpl", tid, fields
	} else {
		recs, rfields, err := coll.ProjectData(m)
		if err != nil {
			ev["kind"] = "ProjErr"
		} else {
			ev["kind"], ev["recs"], ev["rfields"] = "Data", recs, rfields
			ev["tid"] = -1
			if rs := m.GetSet().GetRecords(); len(rs) > 0 {
				ev["tid"] = int(rs[0].GetTemplateID())
			}
		}
	}
	s.w.Emit(vt.Ev{"e": "CDeliver", "m": ev})
}

// collect waits for the pending deliveries; returns how many are still missing.
func (s *session) collect(timeout time.Duration) int {
	t := time.After(timeout)
	for s.pending > 0 {
		select {
		case m := <-s.cp.GetMsgChan():
			s.deliverOne(m)
			s.pending--
		case <-t:
			return s.pending
		}
	}
	return 0
}

func (s *session) close() {
	s.w.Emit(vt.Ev{"e": "End"})
	s.ep.CloseConnToCollector()
	done := make(chan struct{})
	go func() { s.cp.Stop(); close(done) }()
	for {
		select {
		case <-s.cp.GetMsgChan():
		case <-done:
			return
		case <-time.After(3 * time.Second):
			return
		}
	}
}

func main() {
	flag.Parse()
	thorough := *tier == "thorough"
	registry.LoadRegistry()
	gen.NonUTF8 = true
	custom, err := gen.RegisterCustom()
	if err != nil {
		panic(err)
	}
	pool := sets.Pool(custom)
	w, err := vt.Open(*out)
	if err != nil {
		panic(err)
	}
	r := rand.New(rand.NewSource(*seed))
	dist := map[uint64]bool{}
	evals := 0
	nmsg := 40
	if thorough {
		nmsg = 400
	}
	u8, _ := registry.GetInfoElement("protocolIdentifier", 0)
	str, _ := registry.GetInfoElement("interfaceName", 0)
	oct, _ := registry.GetInfoElement("ipHeaderPacketSection", 0)
	skipped := []string{}
	for _, transport := range []string{"tcp", "udp", "tls", "dtls"} {
		for _, v6 := range []bool{false, true} {
			s, err := open(w, transport, v6, r.Uint32(), dist)
			if err != nil {
				skipped = append(skipped, fmt.Sprintf("%s/v6=%v: %v", transport, v6, err))
				w.Reset(vt.Ev{"transport": transport, "v6": v6, "dom": vt.Limbs(0), "lossy": false})
				w.Emit(vt.Ev{"e": "OpenFailed", "transport": transport, "v6": v6, "detail": err.Error()})
				continue
			}
			limit := 65535
			if s.lossy {
				limit = 60000
			}
			if transport == "dtls" {
				limit = 8000
			}
			tmpls := map[int][]*entities.InfoElement{}
			tids := []int{}
			burst := 0
			flush := func() {
				if missing := s.collect(3 * time.Second); missing > 0 {
					// a lossy transport may drop: report it (no retransmission is attempted at this level)
					s.w.Emit(vt.Ev{"e": "Lost", "n": missing})
					s.pending = 0
				}
				burst = 0
			}
			for j := 0; j < nmsg; j++ {
				if len(tids) == 0 || r.Intn(6) == 0 {
					tid := 256 + len(tids)
					ies := sets.RandTemplate(r, pool, 40)
					switch r.Intn(5) {
					case 0:
						ies = append([]*entities.InfoElement{}, custom[:18]...) // one element of every type
					case 1:
						ies = []*entities.InfoElement{u8, str, oct} // variable-length boundaries
					}
					tmpls[tid] = ies
					tids = append(tids, tid)
					s.send(sets.Tmpl(tid, ies))
					flush() // a data set must not overtake its template on a lossy transport
					continue
				}
				tid := tids[r.Intn(len(tids))]
				n := 1 + r.Intn(6)
				maxVar := 300
				switch r.Intn(12) {
				case 0:
					n = 3000 // as many as fit one message
				case 1:
					maxVar = 40000
				}
				if transport == "dtls" && maxVar > 4000 {
					maxVar = 4000
				}
				d := sets.Data(r, tid, tmpls[tid], n, maxVar, limit)
				if len(d.Recs) == 0 {
					continue
				}
				s.send(d)
				burst++
				// on a lossy transport every message is collected before the next is sent: the collector's
				// reader blocks on the hand-off to the consumer, and a burst of large datagrams could
				// overflow the socket buffer meanwhile (a loss that would not be the library's doing)
				if s.lossy || burst >= 1+r.Intn(5) {
					flush()
				}
				// ... except for small messages, which also go out two or three truly back to back on every transport
				// (far below any socket buffer): a message must not be decoded from its successor's bytes
				if r.Intn(4) == 0 {
					flush()
					var ds []sets.Desc
					for q := 0; q < 2+r.Intn(2); q++ {
						if x := sets.Data(r, tid, tmpls[tid], 1+r.Intn(2), 60, 1200); len(x.Recs) > 0 {
							ds = append(ds, x)
						}
					}
					if len(ds) > 0 {
						s.sendBurst(ds)
						flush()
					}
				}
			}
			// variable-length boundaries end to end: 0, 254, 255 and the largest value that fits one message
			if !s.lossy || transport == "udp" {
				tid := 900
				s.send(sets.Tmpl(tid, []*entities.InfoElement{u8, str}))
				flush()
				lens := []int{0, 1, 254, 255, 256}
				if transport == "tcp" || transport == "tls" {
					lens = append(lens, 65535-20-1-3) // 65511 bytes of string + u8 fill the message exactly
				}
				for _, n := range lens {
					v := make([]int, n)
					for i := range v {
						v[i] = 97 + i%26
					}
					s.send(sets.Desc{Stype: "data", HdrID: tid, Recs: []sets.Rec{{Tid: tid, IEs: []*entities.InfoElement{u8, str}, Vals: [][]int{{7}, v}}}})
					flush()
				}
			}
			flush()
			s.close()
			evals += s.evals
		}
	}
	w.Close()
	vt.PrintSummary(vt.Summary{Events: w.Events(), Traces: w.Traces(), Evaluations: evals, Distinct: len(dist), Extra: map[string]any{"skipped": skipped}})
}
