//go:build verif

// c14: exporter background activity and lifecycle, under the race detector.
// UDP: refresh interval 1 s, raw UDP peer logging every datagram, one application goroutine,
// concurrent repeated Close calls, marker datagram after the last Close returned.
// TCP: check interval 50 ms, the peer closes, later sends must fail.
package main

import (
	"flag"
	"fmt"
	"hash/fnv"
	"math/rand"
	"net"
	"os"
	"runtime"
	"strings"
	"sync"
	"time"

	"github.com/vmware/go-ipfix/pkg/entities"
	"github.com/vmware/go-ipfix/pkg/exporter"
	"github.com/vmware/go-ipfix/pkg/registry"

	"verif/harness/gen"
	"verif/harness/sets"
	"verif/harness/vt"
)

var (
	out  = flag.String("out", "trace.ndjson", "trace file")
	seed = flag.Int64("seed", 1, "seed")
	tier = flag.String("tier", "quick", "quick|thorough")
)

var t0 = time.Now()

// waitOrHang waits for the closers; a Close that does not return is an event of its own (and ends the run,
// since the goroutines it blocks cannot be recovered).
func waitOrHang(w *vt.Writer, wg *sync.WaitGroup, what string) {
	done := make(chan struct{})
	go func() { wg.Wait(); close(done) }()
	select {
	case <-done:
	case <-time.After(10 * time.Second):
		w.Emit(vt.Ev{"e": "Hang", "what": what, "ms": ms()})
		w.Close()
		vt.PrintSummary(vt.Summary{Events: w.Events(), Traces: w.Traces(), Evaluations: w.Events(), Distinct: 2})
		os.Exit(0)
	}
}

func ms() int { return int(time.Since(t0) / time.Millisecond) }

func exporterGoroutines() int {
	buf := make([]byte, 1<<20)
	n := runtime.Stack(buf, true)
	c := 0
	for _, g := range strings.Split(string(buf[:n]), "\n\n") {
		if strings.Contains(g, "go-ipfix/pkg/exporter.") && !strings.Contains(g, "main.") {
			c++
		}
	}
	return c
}

func udpRun(w *vt.Writer, r *rand.Rand, pool []*entities.InfoElement, dur time.Duration, dist map[uint64]bool) int {
	peer, err := net.ListenUDP("udp", &net.UDPAddr{IP: net.IPv4(127, 0, 0, 1)})
	if err != nil {
		panic(err)
	}
	peer.SetReadBuffer(16 << 20)
	dom := r.Uint32()
	ep, err := exporter.InitExportingProcess(exporter.ExporterInput{CollectorAddress: peer.LocalAddr().String(), CollectorProtocol: "udp", ObservationDomainID: dom, TempRefTimeout: 1})
	if err != nil {
		panic(err)
	}
	w.Reset(vt.Ev{"proto": "udp", "dom": vt.Limbs(dom)})
	marker := []byte("VERIF-MARK")
	peerDone := make(chan struct{})
	go func() { // peer: log every datagram
		defer close(peerDone)
		buf := make([]byte, 65536)
		for {
			peer.SetReadDeadline(time.Now().Add(dur + 5*time.Second))
			n, _, err := peer.ReadFromUDP(buf)
			if err != nil {
				return
			}
			if string(buf[:n]) == string(marker) {
				w.Emit(vt.Ev{"e": "Mark"})
				// silence window: anything that still arrives is logged (and has no explanation)
				for {
					peer.SetReadDeadline(time.Now().Add(300 * time.Millisecond))
					n, _, err := peer.ReadFromUDP(buf)
					if err != nil {
						return
					}
					w.Emit(vt.Ev{"e": "Recv", "bytes": vt.B(buf[:n]), "sec": int(time.Now().Unix())})
				}
			}
			w.Emit(vt.Ev{"e": "Recv", "bytes": vt.B(buf[:n]), "sec": int(time.Now().Unix())})
		}
	}()
	evals := 0
	stopApp := make(chan struct{})
	appDone := make(chan struct{})
	seedApp := r.Int63()
	go func() { // the application: ONE goroutine calling SendSet
		defer close(appDone)
		rr := rand.New(rand.NewSource(seedApp))
		tmpls := map[int][]*entities.InfoElement{}
		tids := []int{}
		for {
			select {
			case <-stopApp:
				return
			default:
			}
			var d sets.Desc
			if len(tids) == 0 || (len(tids) < 5 && rr.Intn(40) == 0) {
				tid := 256 + len(tids)
				tmpls[tid] = sets.RandTemplate(rr, pool, 8)
				tids = append(tids, tid)
				d = sets.Tmpl(tid, tmpls[tid])
			} else if rr.Intn(30) == 0 {
				d = sets.Data(rr, 999, tmpls[tids[0]], 1, 10, 4000) // unknown template: must fail, nothing written
			} else {
				tid := tids[rr.Intn(len(tids))]
				d = sets.Data(rr, tid, tmpls[tid], 1+rr.Intn(4), 40, 4000)
			}
			h := fnv.New64a()
			fmt.Fprint(h, d.Stype, d.HdrID, len(d.Recs))
			for _, rc := range d.Recs {
				fmt.Fprint(h, rc.Vals)
			}
			dist[h.Sum64()] = true
			evals++
			set := d.Build()
			w.Emit(vt.Ev{"e": "SendBegin", "set": d.JSON(), "ms": ms()})
			m0 := ms()
			n, err := ep.SendSet(set)
			w.Emit(vt.Ev{"e": "SendEnd", "ret": n, "err": err != nil, "ms0": m0, "ms": ms()})
			time.Sleep(time.Duration(rr.Intn(3000)) * time.Microsecond)
		}
	}()
	time.Sleep(dur + time.Duration(r.Intn(400))*time.Millisecond)
	// concurrent, repeated Close from 1..4 goroutines
	nc := 1 + r.Intn(4)
	var wg sync.WaitGroup
	for c := 0; c < nc; c++ {
		wg.Add(1)
		go func(c int) {
			defer wg.Done()
			for k := 0; k < 2; k++ {
				w.Emit(vt.Ev{"e": "CloseBegin", "c": c, "ms": ms()})
				ep.CloseConnToCollector()
				w.Emit(vt.Ev{"e": "CloseEnd", "c": c, "ms": ms()})
			}
		}(c)
	}
	waitOrHang(w, &wg, "CloseConnToCollector (udp)")
	// a few more application sends after Close returned (they must fail and write nothing), then the marker
	time.Sleep(20 * time.Millisecond)
	close(stopApp)
	<-appDone
	mk, _ := net.DialUDP("udp", nil, peer.LocalAddr().(*net.UDPAddr))
	mk.Write(marker)
	mk.Close()
	<-peerDone
	peer.Close()
	time.Sleep(20 * time.Millisecond)
	w.Emit(vt.Ev{"e": "End", "leaked": exporterGoroutines(), "ms": ms()})
	return evals
}

// udpPeerGone: the UDP peer disappears (port closed) while the application sends and the refresher runs:
// sends and refreshes start to fail, the refresher closes the process from the inside; an application
// Close afterwards must still return and leave nothing behind.
func udpPeerGone(w *vt.Writer, r *rand.Rand, pool []*entities.InfoElement) int {
	peer, err := net.ListenUDP("udp", &net.UDPAddr{IP: net.IPv4(127, 0, 0, 1)})
	if err != nil {
		panic(err)
	}
	dom := r.Uint32()
	ep, err := exporter.InitExportingProcess(exporter.ExporterInput{CollectorAddress: peer.LocalAddr().String(), CollectorProtocol: "udp", ObservationDomainID: dom, TempRefTimeout: 1})
	if err != nil {
		panic(err)
	}
	w.Reset(vt.Ev{"proto": "udp", "dom": vt.Limbs(dom)})
	evals := 0
	ies := sets.RandTemplate(r, pool, 6)
	send := func(d sets.Desc) {
		evals++
		set := d.Build()
		w.Emit(vt.Ev{"e": "SendBegin", "set": d.JSON(), "ms": ms()})
		m0 := ms()
		n, err := ep.SendSet(set)
		w.Emit(vt.Ev{"e": "SendEnd", "ret": n, "err": err != nil, "ms0": m0, "ms": ms()})
	}
	w.Emit(vt.Ev{"e": "PeerClose", "ms": ms()})
	peer.Close()
	send(sets.Tmpl(256, ies))
	deadline := time.Now().Add(time.Duration(1300+r.Intn(1200)) * time.Millisecond) // one or two refresh ticks hit the dead port
	for time.Now().Before(deadline) {
		send(sets.Data(r, 256, ies, 1+r.Intn(3), 20, 4000))
		time.Sleep(time.Duration(5+r.Intn(40)) * time.Millisecond)
	}
	var wg sync.WaitGroup
	for c := 0; c < 2; c++ {
		wg.Add(1)
		go func(c int) {
			defer wg.Done()
			w.Emit(vt.Ev{"e": "CloseBegin", "c": c, "ms": ms()})
			ep.CloseConnToCollector()
			w.Emit(vt.Ev{"e": "CloseEnd", "c": c, "ms": ms()})
		}(c)
	}
	waitOrHang(w, &wg, "CloseConnToCollector (udp, peer gone)")
	send(sets.Data(r, 256, ies, 1, 20, 4000))
	time.Sleep(20 * time.Millisecond)
	w.Emit(vt.Ev{"e": "End", "leaked": exporterGoroutines(), "ms": ms()})
	return evals
}

func tcpRun(w *vt.Writer, r *rand.Rand, pool []*entities.InfoElement) int {
	ln, err := net.Listen("tcp", "127.0.0.1:0")
	if err != nil {
		panic(err)
	}
	defer ln.Close()
	dom := r.Uint32()
	ep, err := exporter.InitExportingProcess(exporter.ExporterInput{CollectorAddress: ln.Addr().String(), CollectorProtocol: "tcp", ObservationDomainID: dom, CheckConnInterval: 50 * time.Millisecond})
	if err != nil {
		panic(err)
	}
	conn, err := ln.Accept()
	if err != nil {
		panic(err)
	}
	go func() { // the peer discards what it receives until it closes
		buf := make([]byte, 65536)
		for {
			if _, err := conn.Read(buf); err != nil {
				return
			}
		}
	}()
	w.Reset(vt.Ev{"proto": "tcp", "dom": vt.Limbs(dom)})
	evals := 0
	ies := sets.RandTemplate(r, pool, 6)
	send := func(d sets.Desc) {
		evals++
		set := d.Build()
		w.Emit(vt.Ev{"e": "SendBegin", "set": d.JSON(), "ms": ms()})
		m0 := ms()
		n, err := ep.SendSet(set)
		w.Emit(vt.Ev{"e": "SendEnd", "ret": n, "err": err != nil, "ms0": m0, "ms": ms()})
	}
	send(sets.Tmpl(256, ies))
	for i := 0; i < 5; i++ {
		send(sets.Data(r, 256, ies, 1+r.Intn(3), 20, 4000))
	}
	w.Emit(vt.Ev{"e": "PeerClose", "ms": ms()})
	conn.Close()
	// sends right after the peer closed may still succeed (within the check interval) ...
	for i := 0; i < 3; i++ {
		send(sets.Data(r, 256, ies, 1, 20, 4000))
		time.Sleep(time.Duration(r.Intn(30)) * time.Millisecond)
	}
	// ... but well after the check interval they must fail instead of vanishing
	time.Sleep(800 * time.Millisecond)
	for i := 0; i < 3; i++ {
		send(sets.Data(r, 256, ies, 1, 20, 4000))
	}
	var wg sync.WaitGroup
	for c := 0; c < 2; c++ {
		wg.Add(1)
		go func(c int) {
			defer wg.Done()
			w.Emit(vt.Ev{"e": "CloseBegin", "c": c, "ms": ms()})
			ep.CloseConnToCollector()
			w.Emit(vt.Ev{"e": "CloseEnd", "c": c, "ms": ms()})
		}(c)
	}
	waitOrHang(w, &wg, "CloseConnToCollector (tcp)")
	time.Sleep(20 * time.Millisecond)
	w.Emit(vt.Ev{"e": "End", "leaked": exporterGoroutines(), "ms": ms()})
	return evals
}

func main() {
	flag.Parse()
	thorough := *tier == "thorough"
	registry.LoadRegistry()
	custom, err := gen.RegisterCustom()
	if err != nil {
		panic(err)
	}
	pool := sets.Pool(custom)
	w, err := vt.Open(*out)
	if err != nil {
		panic(err)
	}
	r := rand.New(rand.NewSource(*seed))
	dist := map[uint64]bool{}
	evals := 0
	nudp, dur, ntcp := 1, 3300*time.Millisecond, 2
	if thorough {
		nudp, dur, ntcp = 4, 8500*time.Millisecond, 8
	}
	// UDP runs in parallel would share the logger; run them one after another
	for i := 0; i < nudp; i++ {
		evals += udpRun(w, r, pool, dur, dist)
	}
	for i := 0; i < ntcp; i++ {
		evals += tcpRun(w, r, pool)
	}
	for i := 0; i < (ntcp+1)/2; i++ {
		evals += udpPeerGone(w, r, pool)
	}
	w.Close()
	vt.PrintSummary(vt.Summary{Events: w.Events(), Traces: w.Traces(), Evaluations: evals, Distinct: len(dist) + ntcp})
}
