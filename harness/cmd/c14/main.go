//go:build verif

// c14: exporter background activity and lifecycle, under the race detector.
// UDP: refresh interval 1 s, raw UDP peer logging every datagram, one application goroutine,
// concurrent repeated Close calls, marker datagram after the last Close returned.
// TCP: check interval 50 ms, the peer closes, later sends must fail.
package main

import (
	"context"
	"flag"
	"fmt"
	"hash/fnv"
	"io"
	"math/rand"
	"net"
	"os"
	"runtime"
	"strconv"
	"strings"
	"sync"
	"sync/atomic"
	"syscall"
	"time"

	"github.com/vmware/go-ipfix/pkg/entities"
	"github.com/vmware/go-ipfix/pkg/exporter"
	"github.com/vmware/go-ipfix/pkg/registry"

	"verif/harness/gen"
	"verif/harness/sets"
	"verif/harness/vt"
)

var (
	out  = flag.String("out", "trace.ndjson", "trace file")
	seed = flag.Int64("seed", 1, "seed")
	tier = flag.String("tier", "quick", "quick|thorough")
	scen = flag.String("scen", "all", "all | refresh (one short UDP session whose first refresh burst overlaps application sends; used by C02 / C08)")
)

var t0 = time.Now()

// waitOrHang waits for the closers; a Close that does not return is an event of its own (and ends the run,
// since the goroutines it blocks cannot be recovered).
func waitOrHang(w *vt.Writer, wg *sync.WaitGroup, what string) {
	done := make(chan struct{})
	go func() { wg.Wait(); close(done) }()
	select {
	case <-done:
	case <-time.After(10 * time.Second):
		w.Emit(vt.Ev{"e": "Hang", "what": what, "ms": ms()})
		w.Close()
		vt.PrintSummary(vt.Summary{Events: w.Events(), Traces: w.Traces(), Evaluations: w.Events(), Distinct: 2})
		os.Exit(0)
	}
}

func ms() int { return int(time.Since(t0) / time.Millisecond) }

func exporterGoroutines() int {
	buf := make([]byte, 1<<20)
	n := runtime.Stack(buf, true)
	c := 0
	for _, g := range strings.Split(string(buf[:n]), "\n\n") {
		if strings.Contains(g, "go-ipfix/pkg/exporter.") && !strings.Contains(g, "main.") {
			c++
		}
	}
	return c
}

// manyTemplates makes the refresh burst long (nMany templates before the first tick); the peer signals the first
// retransmitted template it sees, the application then sends three new templates inside that burst and none afterwards.
var manyTemplates bool

// nMany: templates registered before the first tick in the many-templates run (the refresh burst must last a few
// milliseconds: the exporter needs about 1.5 us per template)
const nMany = 1500

func udpRun(w *vt.Writer, r *rand.Rand, pool []*entities.InfoElement, dur time.Duration, dist map[uint64]bool) int {
	peer, err := net.ListenUDP("udp", &net.UDPAddr{IP: net.IPv4(127, 0, 0, 1)})
	if err != nil {
		panic(err)
	}
	peer.SetReadBuffer(16 << 20)
	dom := r.Uint32()
	ep, err := exporter.InitExportingProcess(exporter.ExporterInput{CollectorAddress: peer.LocalAddr().String(), CollectorProtocol: "udp", ObservationDomainID: dom, TempRefTimeout: 1})
	if err != nil {
		panic(err)
	}
	w.Reset(vt.Ev{"proto": "udp", "dom": vt.Limbs(dom)})
	marker := []byte("VERIF-MARK")
	peerDone := make(chan struct{})
	burst := make(chan struct{}) // closed by the peer when it sees the first retransmitted template
	// peer: one goroutine only reads (and notices the first retransmitted template at once), another one logs in
	// arrival order - logging is slow, and what the reader notices must not wait for it
	type pkt struct {
		b   []byte
		sec int
	}
	pkts := make(chan pkt, 1<<17)
	var holdLog atomic.Bool
	type lateRes struct {
		m0, m1, n int
		err       error
	}
	lateReq := make(chan []entities.Set, 1)
	lateDone := make(chan []lateRes, 1)
	go func() {
		defer close(pkts)
		buf := make([]byte, 65536)
		seen := map[int]bool{}
		burstSeen := false
		deadline := time.Now().Add(dur + 5*time.Second)
		for {
			peer.SetReadDeadline(deadline)
			n, _, err := peer.ReadFromUDP(buf)
			if err != nil {
				return
			}
			if !burstSeen && n >= 22 && buf[16] == 0 && buf[17] == 2 {
				tid := int(buf[20])<<8 | int(buf[21])
				if seen[tid] {
					burstSeen = true
					close(burst)
					select {
					case sets3 := <-lateReq:
						holdLog.Store(true)
						out := make([]lateRes, len(sets3))
						for i := range sets3 {
							out[i].m0 = ms()
							out[i].n, out[i].err = ep.SendSet(sets3[i])
							out[i].m1 = ms()
						}
						lateDone <- out
					default: // the application was not ready (not the many-templates run)
					}
				}
				seen[tid] = true
			}
			pkts <- pkt{append([]byte{}, buf[:n]...), int(time.Now().Unix())}
			if string(buf[:n]) == string(marker) {
				deadline = time.Now().Add(300 * time.Millisecond) // silence window: anything that still arrives is logged (and has no explanation)
			}
		}
	}()
	go func() {
		defer close(peerDone)
		for p := range pkts {
			for holdLog.Load() { // the application is logging sends it has just made: their datagrams come after that
				time.Sleep(20 * time.Microsecond)
			}
			if string(p.b) == string(marker) {
				w.Emit(vt.Ev{"e": "Mark"})
				continue
			}
			w.Emit(vt.Ev{"e": "Recv", "bytes": vt.B(p.b), "sec": p.sec})
		}
	}()
	evals := 0
	var closing atomic.Bool
	stopApp := make(chan struct{})
	appDone := make(chan struct{})
	seedApp := r.Int63()
	go func() { // the application: ONE goroutine calling SendSet
		defer close(appDone)
		rr := rand.New(rand.NewSource(seedApp))
		tmpls := map[int][]*entities.InfoElement{}
		tids := []int{}
		late := -1 // manyTemplates: number of new templates still to send inside the first refresh burst
		lastNew := time.Now()
		var burstAt time.Time
		appSet := entities.NewSet(false)
		var lateSets []sets.Desc
		var lateBuilt []entities.Set
		for {
			select {
			case <-stopApp:
				return
			default:
			}
			if manyTemplates && late < 0 && lateSets != nil {
				// Everything is prepared: the application hands the three sets to the peer's reader and waits.  The reader
				// calls SendSet for them the moment it sees the first retransmitted template (a few microseconds, no
				// goroutine switch: the burst of nMany templates lasts several ms), the application logs the sends afterwards with
				// the peer's log held back.  No new template later: each of the three must still be retransmitted at every
				// later refresh.  (SendSet is still called by one goroutine at a time.)
				lateReq <- lateBuilt
				var out []lateRes
				select {
				case out = <-lateDone:
				case <-stopApp:
					return
				}
				late = 0
				burstAt = time.Now()
				for i, d := range lateSets {
					evals++
					w.Emit(vt.Ev{"e": "SendBegin", "set": d.JSON(), "ms": out[i].m0})
					w.Emit(vt.Ev{"e": "SendEnd", "ret": out[i].n, "err": out[i].err != nil, "ms0": out[i].m0, "ms": out[i].m1})
				}
				holdLog.Store(false)
			}
			if manyTemplates && late < 0 && len(tids) >= nMany && lateSets == nil {
				for q := 0; q < 3; q++ { // prepared while waiting for the burst
					tid := 256 + len(tids)
					tmpls[tid] = sets.RandTemplate(rr, pool, 2)
					tids = append(tids, tid)
					d := sets.Tmpl(tid, tmpls[tid])
					lateSets = append(lateSets, d)
					lateBuilt = append(lateBuilt, d.Build())
				}
			}
			var d sets.Desc
			if manyTemplates && late > 0 {
				// the refresher is in the middle of its first retransmission burst: new templates now,
				// and none afterwards -- each must still be retransmitted at every later refresh
				late--
				tid := 256 + len(tids)
				tmpls[tid] = sets.RandTemplate(rr, pool, 2)
				tids = append(tids, tid)
				d = sets.Tmpl(tid, tmpls[tid])
			} else if manyTemplates && late < 0 && len(tids) < nMany && lateSets == nil {
				tid := 256 + len(tids)
				tmpls[tid] = sets.RandTemplate(rr, pool, 2)
				tids = append(tids, tid)
				d = sets.Tmpl(tid, tmpls[tid])
			} else if len(tids) == 0 || (!manyTemplates && len(tids) < 14 && time.Since(lastNew) > time.Duration(300+rr.Intn(150))*time.Millisecond) {
				// a new template every 300-450 ms, all through the run: the refresher must not be starved by them
				lastNew = time.Now()
				tid := 256 + len(tids)
				tmpls[tid] = sets.RandTemplate(rr, pool, 8)
				tids = append(tids, tid)
				d = sets.Tmpl(tid, tmpls[tid])
			} else if rr.Intn(30) == 0 {
				d = sets.Data(rr, 999, tmpls[tids[0]], 1, 10, 4000) // unknown template: must fail, nothing written
			} else {
				tid := tids[rr.Intn(len(tids))]
				d = sets.Data(rr, tid, tmpls[tid], 1+rr.Intn(4), 40, 4000)
				if closing.Load() {
					// around Close the application offers large sets (hundreds of records) without pausing: a SendSet
					// is then almost certainly in progress when Close runs
					d = sets.Data(rr, tid, tmpls[tid], 600+rr.Intn(900), 6, 60000)
				}
			}
			h := fnv.New64a()
			fmt.Fprint(h, d.Stype, d.HdrID, len(d.Recs))
			for _, rc := range d.Recs {
				fmt.Fprint(h, rc.Vals)
			}
			dist[h.Sum64()] = true
			evals++
			// ONE set object for everything the application sends, recycled with ResetSet (what was handed to SendSet
			// earlier - a template set in particular - is the application's to reuse)
			set := d.BuildInto(appSet)
			w.Emit(vt.Ev{"e": "SendBegin", "set": d.JSON(), "ms": ms()})
			m0 := ms()
			n, err := ep.SendSet(set)
			w.Emit(vt.Ev{"e": "SendEnd", "ret": n, "err": err != nil, "ms0": m0, "ms": ms()})
			if closing.Load() {
				continue
			}
			if manyTemplates && !burstAt.IsZero() && time.Since(burstAt) < 60*time.Millisecond {
				continue // data sets back to back while the refresher works through its burst
			}
			if manyTemplates && late != 0 {
				continue
			}
			time.Sleep(time.Duration(rr.Intn(3000)) * time.Microsecond)
		}
	}()
	time.Sleep(dur + time.Duration(r.Intn(400))*time.Millisecond)
	closing.Store(true)
	time.Sleep(40 * time.Millisecond)
	// concurrent, repeated Close from 1..4 goroutines
	nc := 2 + r.Intn(3) // always overlapping Close calls here (single closers: the TCP scenarios)
	var wg sync.WaitGroup
	for c := 0; c < nc; c++ {
		wg.Add(1)
		go func(c int) {
			defer wg.Done()
			for k := 0; k < 2; k++ {
				w.Emit(vt.Ev{"e": "CloseBegin", "c": c, "ms": ms()})
				ep.CloseConnToCollector()
				w.Emit(vt.Ev{"e": "CloseEnd", "c": c, "ms": ms()})
			}
		}(c)
	}
	waitOrHang(w, &wg, "CloseConnToCollector (udp)")
	// a few more application sends after Close returned (they must fail and write nothing), then the marker
	time.Sleep(20 * time.Millisecond)
	close(stopApp)
	<-appDone
	mk, _ := net.DialUDP("udp", nil, peer.LocalAddr().(*net.UDPAddr))
	mk.Write(marker)
	mk.Close()
	<-peerDone
	peer.Close()
	time.Sleep(20 * time.Millisecond)
	w.Emit(vt.Ev{"e": "End", "leaked": exporterGoroutines(), "ms": ms()})
	return evals
}

// udpPeerGone: the UDP peer disappears (port closed) while the application sends and the refresher runs:
// sends and refreshes start to fail, the refresher closes the process from the inside; an application
// Close afterwards must still return and leave nothing behind.
func udpPeerGone(w *vt.Writer, r *rand.Rand, pool []*entities.InfoElement) int {
	peer, err := net.ListenUDP("udp", &net.UDPAddr{IP: net.IPv4(127, 0, 0, 1)})
	if err != nil {
		panic(err)
	}
	dom := r.Uint32()
	ep, err := exporter.InitExportingProcess(exporter.ExporterInput{CollectorAddress: peer.LocalAddr().String(), CollectorProtocol: "udp", ObservationDomainID: dom, TempRefTimeout: 1})
	if err != nil {
		panic(err)
	}
	w.Reset(vt.Ev{"proto": "udp", "dom": vt.Limbs(dom)})
	evals := 0
	ies := sets.RandTemplate(r, pool, 6)
	send := func(d sets.Desc) {
		evals++
		set := d.Build()
		w.Emit(vt.Ev{"e": "SendBegin", "set": d.JSON(), "ms": ms()})
		m0 := ms()
		n, err := ep.SendSet(set)
		w.Emit(vt.Ev{"e": "SendEnd", "ret": n, "err": err != nil, "ms0": m0, "ms": ms()})
	}
	w.Emit(vt.Ev{"e": "PeerClose", "ms": ms()})
	peer.Close()
	send(sets.Tmpl(256, ies))
	deadline := time.Now().Add(time.Duration(1300+r.Intn(1200)) * time.Millisecond) // one or two refresh ticks hit the dead port
	for time.Now().Before(deadline) {
		send(sets.Data(r, 256, ies, 1+r.Intn(3), 20, 4000))
		time.Sleep(time.Duration(5+r.Intn(40)) * time.Millisecond)
	}
	var wg sync.WaitGroup
	for c := 0; c < 2; c++ {
		wg.Add(1)
		go func(c int) {
			defer wg.Done()
			w.Emit(vt.Ev{"e": "CloseBegin", "c": c, "ms": ms()})
			ep.CloseConnToCollector()
			w.Emit(vt.Ev{"e": "CloseEnd", "c": c, "ms": ms()})
		}(c)
	}
	waitOrHang(w, &wg, "CloseConnToCollector (udp, peer gone)")
	send(sets.Data(r, 256, ies, 1, 20, 4000))
	time.Sleep(20 * time.Millisecond)
	w.Emit(vt.Ev{"e": "End", "leaked": exporterGoroutines(), "ms": ms()})
	return evals
}

// udpLateCollector: the collector's port is closed when the exporter starts (the first sends fail with "connection
// refused"), then the collector comes up; from then on everything written arrives whole, refreshes included, also
// while the refresher and the application write at the same time (600 templates make the refresh burst long).
func udpLateCollector(w *vt.Writer, r *rand.Rand, pool []*entities.InfoElement) int {
	probe, err := net.ListenUDP("udp", &net.UDPAddr{IP: net.IPv4(127, 0, 0, 1)})
	if err != nil {
		panic(err)
	}
	addr := probe.LocalAddr().(*net.UDPAddr)
	probe.Close()
	dom := r.Uint32()
	ep, err := exporter.InitExportingProcess(exporter.ExporterInput{CollectorAddress: addr.String(), CollectorProtocol: "udp", ObservationDomainID: dom, TempRefTimeout: 1})
	if err != nil {
		panic(err)
	}
	start := time.Now()
	w.Reset(vt.Ev{"proto": "udp", "dom": vt.Limbs(dom)})
	w.Emit(vt.Ev{"e": "PeerClose", "ms": ms()}) // nobody is listening yet
	evals := 0
	send := func(d sets.Desc) {
		evals++
		set := d.Build()
		w.Emit(vt.Ev{"e": "SendBegin", "set": d.JSON(), "ms": ms()})
		m0 := ms()
		n, err := ep.SendSet(set)
		w.Emit(vt.Ev{"e": "SendEnd", "ret": n, "err": err != nil, "ms0": m0, "ms": ms()})
	}
	tmpls := map[int][]*entities.InfoElement{}
	for time.Since(start) < 250*time.Millisecond { // sends against the closed port: some fail
		tid := 256 + len(tmpls)
		tmpls[tid] = sets.RandTemplate(r, pool, 2)
		send(sets.Tmpl(tid, tmpls[tid]))
		send(sets.Data(r, tid, tmpls[tid], 1, 20, 400))
		time.Sleep(4 * time.Millisecond)
	}
	peer, err := net.ListenUDP("udp", addr)
	if err != nil { // somebody else got the port meanwhile: nothing to report
		ep.CloseConnToCollector()
		w.Emit(vt.Ev{"e": "End", "leaked": exporterGoroutines(), "ms": ms()})
		return evals
	}
	peer.SetReadBuffer(16 << 20)
	peerDone := make(chan struct{})
	marker := []byte("VERIF-MARK")
	go func() {
		defer close(peerDone)
		buf := make([]byte, 65536)
		for {
			peer.SetReadDeadline(time.Now().Add(8 * time.Second))
			n, _, err := peer.ReadFromUDP(buf)
			if err != nil || string(buf[:n]) == string(marker) {
				return
			}
			w.Emit(vt.Ev{"e": "Recv", "bytes": vt.B(buf[:n]), "sec": int(time.Now().Unix())})
		}
	}()
	for len(tmpls) < 600 { // a long refresh burst
		tid := 256 + len(tmpls)
		tmpls[tid] = sets.RandTemplate(r, pool, 2)
		send(sets.Tmpl(tid, tmpls[tid]))
	}
	for time.Since(start) < 2400*time.Millisecond { // two refresh ticks overlap these sends
		tid := 256 + r.Intn(len(tmpls))
		send(sets.Data(r, tid, tmpls[tid], 1+r.Intn(3), 20, 2000))
		if ph := time.Since(start) % time.Second; ph < 60*time.Millisecond || ph > 980*time.Millisecond {
			continue // around the refresh ticks (1 s after the exporter was created, give or take): back to back
		}
		time.Sleep(time.Duration(r.Intn(1500)) * time.Microsecond)
	}
	var wg sync.WaitGroup
	wg.Add(1)
	go func() {
		defer wg.Done()
		w.Emit(vt.Ev{"e": "CloseBegin", "c": 0, "ms": ms()})
		ep.CloseConnToCollector()
		w.Emit(vt.Ev{"e": "CloseEnd", "c": 0, "ms": ms()})
	}()
	waitOrHang(w, &wg, "CloseConnToCollector (udp, late collector)")
	mk, _ := net.DialUDP("udp", nil, addr)
	mk.Write(marker)
	mk.Close()
	<-peerDone
	peer.Close()
	time.Sleep(20 * time.Millisecond)
	w.Emit(vt.Ev{"e": "End", "leaked": exporterGoroutines(), "ms": ms()})
	return evals
}

// tcpBackpressure: the collector is alive but does not read for a while: application writes block on
// a full socket while connection checks keep running. Nothing may fail and the stream must stay intact.
// closeWhileBlocked: instead of letting the peer read, another goroutine calls Close while the SendSet is blocked:
// Close returns (the pending send is aborted with an error), nothing is left behind.
func tcpBackpressure(w *vt.Writer, r *rand.Rand, pool []*entities.InfoElement, closeWhileBlocked bool) int {
	// a small receive buffer on the listening socket (inherited by the accepted one): the sender's
	// socket fills after a few messages instead of a few megabytes
	lc := net.ListenConfig{Control: func(network, address string, c syscall.RawConn) error {
		return c.Control(func(fd uintptr) { syscall.SetsockoptInt(int(fd), syscall.SOL_SOCKET, syscall.SO_RCVBUF, 16<<10) })
	}}
	ln, err := lc.Listen(context.Background(), "tcp", "127.0.0.1:0")
	if err != nil {
		panic(err)
	}
	defer ln.Close()
	dom := r.Uint32()
	ep, err := exporter.InitExportingProcess(exporter.ExporterInput{CollectorAddress: ln.Addr().String(), CollectorProtocol: "tcp", ObservationDomainID: dom, CheckConnInterval: 50 * time.Millisecond})
	if err != nil {
		panic(err)
	}
	conn, err := ln.Accept()
	if err != nil {
		panic(err)
	}
	w.Reset(vt.Ev{"proto": "tcp", "dom": vt.Limbs(dom)})
	evals := 0
	var inflight atomic.Int64
	u8, _ := registry.GetInfoElement("protocolIdentifier", 0)
	str, _ := registry.GetInfoElement("interfaceName", 0)
	ies := []*entities.InfoElement{u8, str}
	send := func(d sets.Desc) bool {
		evals++
		set := d.Build()
		w.Emit(vt.Ev{"e": "SendBegin", "set": d.JSON(), "ms": ms()})
		m0 := ms()
		inflight.Store(time.Now().UnixNano())
		n, err := ep.SendSet(set)
		inflight.Store(0)
		w.Emit(vt.Ev{"e": "SendEnd", "ret": n, "err": err != nil, "ms0": m0, "ms": ms()})
		return err == nil
	}
	stopRead := make(chan struct{})
	readDone := make(chan struct{})
	closedCh := make(chan struct{})
	var reading atomic.Bool
	go func() { // the peer: silent until one SendSet has been blocked for 400 ms (at most 10 s), then reads and logs every message of the stream
		defer close(readDone)
		for t0 := time.Now(); time.Since(t0) < 10*time.Second; time.Sleep(10 * time.Millisecond) {
			if s := inflight.Load(); s != 0 && time.Now().UnixNano()-s > int64(400*time.Millisecond) {
				break
			}
			select {
			case <-stopRead:
				return
			default:
			}
		}
		reading.Store(true)
		if closeWhileBlocked {
			<-closedCh // the peer reads what is in flight only after Close has returned
		}
		hdr := make([]byte, 4)
		for {
			conn.SetReadDeadline(time.Now().Add(700 * time.Millisecond))
			if _, err := io.ReadFull(conn, hdr); err != nil {
				select {
				case <-stopRead:
					return
				default:
					time.Sleep(time.Millisecond)
					continue
				}
			}
			n := int(hdr[2])<<8 | int(hdr[3])
			if n < 4 {
				w.Emit(vt.Ev{"e": "Recv", "bytes": vt.B(hdr), "sec": int(time.Now().Unix())})
				return
			}
			msg := make([]byte, n)
			copy(msg, hdr)
			conn.SetReadDeadline(time.Now().Add(5 * time.Second))
			k, _ := io.ReadFull(conn, msg[4:])
			if closeWhileBlocked && 4+k < n {
				return // the message whose write Close aborted: a truncated tail at the very end of the stream
			}
			w.Emit(vt.Ev{"e": "Recv", "bytes": vt.B(msg[:4+k]), "sec": int(time.Now().Unix())})
		}
	}()
	send(sets.Tmpl(256, ies))
	big := make([]int, 60000)
	for i := range big {
		big[i] = 97 + i%26
	}
	var cwg sync.WaitGroup
	if closeWhileBlocked {
		cwg.Add(1)
		go func() { // Close from another goroutine while the application's SendSet is blocked in its write
			defer cwg.Done()
			for t := time.Now(); !reading.Load() && time.Since(t) < 11*time.Second; time.Sleep(5 * time.Millisecond) {
			}
			w.Emit(vt.Ev{"e": "CloseBegin", "c": 1, "ms": ms()})
			var one sync.WaitGroup
			one.Add(1)
			go func() { defer one.Done(); ep.CloseConnToCollector() }()
			// the application goroutine is itself stuck in SendSet: the watchdog has to live here
			waitOrHang(w, &one, "CloseConnToCollector while a SendSet is blocked on back-pressure")
			w.Emit(vt.Ev{"e": "CloseEnd", "c": 1, "ms": ms()})
			close(closedCh)
		}()
	}
	t0 := time.Now()
	for !reading.Load() && time.Since(t0) < 10*time.Second { // a write blocks once the socket buffers are full
		if !send(sets.Desc{Stype: "data", HdrID: 256, Recs: []sets.Rec{{Tid: 256, IEs: ies, Vals: [][]int{{7}, big}}}}) {
			break
		}
	}
	if closeWhileBlocked {
		waitOrHang(w, &cwg, "CloseConnToCollector while a SendSet is blocked on back-pressure")
	}
	time.Sleep(300 * time.Millisecond)
	close(stopRead)
	<-readDone
	var wg sync.WaitGroup
	wg.Add(1)
	go func() {
		defer wg.Done()
		w.Emit(vt.Ev{"e": "CloseBegin", "c": 0, "ms": ms()})
		ep.CloseConnToCollector()
		w.Emit(vt.Ev{"e": "CloseEnd", "c": 0, "ms": ms()})
	}()
	waitOrHang(w, &wg, "CloseConnToCollector (tcp, back-pressure)")
	conn.Close()
	time.Sleep(20 * time.Millisecond)
	w.Emit(vt.Ev{"e": "End", "leaked": exporterGoroutines(), "ms": ms()})
	return evals
}

func tcpRun(w *vt.Writer, r *rand.Rand, pool []*entities.InfoElement) int {
	ln, err := net.Listen("tcp", "127.0.0.1:0")
	if err != nil {
		panic(err)
	}
	defer ln.Close()
	dom := r.Uint32()
	ep, err := exporter.InitExportingProcess(exporter.ExporterInput{CollectorAddress: ln.Addr().String(), CollectorProtocol: "tcp", ObservationDomainID: dom, CheckConnInterval: 50 * time.Millisecond})
	if err != nil {
		panic(err)
	}
	conn, err := ln.Accept()
	if err != nil {
		panic(err)
	}
	go func() { // the peer discards what it receives until it closes
		buf := make([]byte, 65536)
		for {
			if _, err := conn.Read(buf); err != nil {
				return
			}
		}
	}()
	w.Reset(vt.Ev{"proto": "tcp", "dom": vt.Limbs(dom)})
	evals := 0
	ies := sets.RandTemplate(r, pool, 6)
	send := func(d sets.Desc) {
		evals++
		set := d.Build()
		w.Emit(vt.Ev{"e": "SendBegin", "set": d.JSON(), "ms": ms()})
		m0 := ms()
		n, err := ep.SendSet(set)
		w.Emit(vt.Ev{"e": "SendEnd", "ret": n, "err": err != nil, "ms0": m0, "ms": ms()})
	}
	send(sets.Tmpl(256, ies))
	for i := 0; i < 5; i++ {
		send(sets.Data(r, 256, ies, 1+r.Intn(3), 20, 4000))
	}
	w.Emit(vt.Ev{"e": "PeerClose", "ms": ms()})
	conn.Close()
	// sends right after the peer closed may still succeed (within the check interval) ...
	for i := 0; i < 3; i++ {
		send(sets.Data(r, 256, ies, 1, 20, 4000))
		time.Sleep(time.Duration(r.Intn(30)) * time.Millisecond)
	}
	// ... but well after the check interval they must fail instead of vanishing
	time.Sleep(800 * time.Millisecond)
	for i := 0; i < 3; i++ {
		send(sets.Data(r, 256, ies, 1, 20, 4000))
	}
	var wg sync.WaitGroup
	for c := 0; c < 2; c++ {
		wg.Add(1)
		go func(c int) {
			defer wg.Done()
			w.Emit(vt.Ev{"e": "CloseBegin", "c": c, "ms": ms()})
			ep.CloseConnToCollector()
			w.Emit(vt.Ev{"e": "CloseEnd", "c": c, "ms": ms()})
		}(c)
	}
	waitOrHang(w, &wg, "CloseConnToCollector (tcp)")
	time.Sleep(20 * time.Millisecond)
	w.Emit(vt.Ev{"e": "End", "leaked": exporterGoroutines(), "ms": ms()})
	return evals
}

func main() {
	flag.Parse()
	thorough := *tier == "thorough"
	registry.LoadRegistry()
	custom, err := gen.RegisterCustom()
	if err != nil {
		panic(err)
	}
	pool := sets.Pool(custom)
	w, err := vt.Open(*out)
	if err != nil {
		panic(err)
	}
	r := rand.New(rand.NewSource(*seed))
	dist := map[uint64]bool{}
	evals := 0
	nudp, dur, ntcp := 1, 3300*time.Millisecond, 2
	if thorough {
		nudp, dur, ntcp = 4, 8500*time.Millisecond, 8
	}
	// UDP runs in parallel would share the logger; run them one after another
	if *scen == "refresh" {
		manyTemplates = true
		rd := 1500 * time.Millisecond
		if v, err := strconv.Atoi(os.Getenv("VERIF_REFRESH_MS")); err == nil && v > 0 {
			rd = time.Duration(v) * time.Millisecond // (used when looking into the timing of this scenario by hand)
		}
		evals += udpRun(w, r, pool, rd, dist)
		w.Close()
		vt.PrintSummary(vt.Summary{Events: w.Events(), Traces: w.Traces(), Evaluations: evals, Distinct: len(dist)})
		return
	}
	for i := 0; i < nudp; i++ {
		evals += udpRun(w, r, pool, dur, dist)
	}
	manyTemplates = true
	evals += udpRun(w, r, pool, 3300*time.Millisecond, dist)
	manyTemplates = false
	for i := 0; i < (ntcp+1)/2; i++ {
		evals += tcpBackpressure(w, r, pool, false)
		evals += tcpBackpressure(w, r, pool, true)
	}
	for i := 0; i < ntcp; i++ {
		evals += tcpRun(w, r, pool)
	}
	for i := 0; i < (ntcp+1)/2; i++ {
		evals += udpPeerGone(w, r, pool)
		evals += udpLateCollector(w, r, pool)
	}
	w.Close()
	vt.PrintSummary(vt.Summary{Events: w.Events(), Traces: w.Traces(), Evaluations: evals, Distinct: len(dist) + ntcp})
}
