//go:build verif

// cexp: sequential exporter against a raw peer socket (C02, C08, C09).
package main

import (
	"bytes"
	"encoding/json"
	"flag"
	"fmt"
	"hash/fnv"
	"io"
	"math/rand"
	"net"
	"os"
	"strconv"
	"strings"
	"time"

	"github.com/vmware/go-ipfix/pkg/entities"
	"github.com/vmware/go-ipfix/pkg/exporter"
	"github.com/vmware/go-ipfix/pkg/registry"

	"verif/harness/absv"
	"verif/harness/gen"
	"verif/harness/vt"
)

var (
	out  = flag.String("out", "trace.ndjson", "trace file")
	seed = flag.Int64("seed", 1, "seed")
	tier = flag.String("tier", "quick", "quick|thorough")
	mode = flag.String("mode", "c02", "c02|c08|c09")
)

type peer struct {
	proto string
	ln    net.Listener
	tcp   net.Conn
	udp   *net.UDPConn
	addr  string
}

func newPeer(proto string) *peer {
	p := &peer{proto: proto}
	if proto == "tcp" {
		ln, err := net.Listen("tcp", "127.0.0.1:0")
		if err != nil {
			panic(err)
		}
		p.ln = ln
		p.addr = ln.Addr().String()
	} else {
		c, err := net.ListenUDP("udp", &net.UDPAddr{IP: net.IPv4(127, 0, 0, 1)})
		if err != nil {
			panic(err)
		}
		c.SetReadBuffer(8 << 20)
		p.udp = c
		p.addr = c.LocalAddr().String()
	}
	return p
}

func (p *peer) accept() {
	if p.proto == "tcp" {
		c, err := p.ln.Accept()
		if err != nil {
			panic(err)
		}
		p.tcp = c
	}
}

// read returns what arrived for a send that reported n bytes.
func (p *peer) read(n int) []byte {
	if p.proto == "tcp" {
		buf := make([]byte, n)
		p.tcp.SetReadDeadline(time.Now().Add(5 * time.Second))
		k, _ := io.ReadFull(p.tcp, buf)
		return buf[:k]
	}
	buf := make([]byte, 65536)
	p.udp.SetReadDeadline(time.Now().Add(5 * time.Second))
	k, _, err := p.udp.ReadFromUDP(buf)
	if err != nil {
		return nil
	}
	return buf[:k]
}

// away closes the collector's UDP socket; back re-opens it on the same port (false if somebody else took the port).
func (p *peer) away() { p.udp.Close() }
func (p *peer) back() bool {
	ua, _ := net.ResolveUDPAddr("udp", p.addr)
	c, err := net.ListenUDP("udp", ua)
	if err != nil {
		return false
	}
	c.SetReadBuffer(8 << 20)
	p.udp = c
	return true
}

// drain returns anything else that arrives within d.
func (p *peer) drain(d time.Duration) []byte {
	buf := make([]byte, 65536)
	if p.proto == "tcp" {
		p.tcp.SetReadDeadline(time.Now().Add(d))
		k, _ := p.tcp.Read(buf)
		return buf[:k]
	}
	p.udp.SetReadDeadline(time.Now().Add(d))
	k, _, _ := p.udp.ReadFromUDP(buf)
	return buf[:k]
}

func (p *peer) close() {
	if p.tcp != nil {
		p.tcp.Close()
	}
	if p.ln != nil {
		p.ln.Close()
	}
	if p.udp != nil {
		p.udp.Close()
	}
}

// ---------------------------------------------------------------------------------------------

type rec struct {
	tid  int
	ies  []*entities.InfoElement
	vals [][]int
	raw  []entities.InfoElementWithValue // when non-nil: ill-typed elements built by hand
}

type setDesc struct {
	stype string
	hdrID int
	recs  []rec
}

func recLen(ies []*entities.InfoElement, vals [][]int) int {
	n := 0
	for i, ie := range ies {
		if ie.DataType == entities.Boolean {
			n++
		} else if gen.Width(ie) < 0 {
			n += len(vals[i]) + len(absv.VarPrefix(len(vals[i])))
		} else {
			n += int(ie.Len)
		}
	}
	return n
}

func (s setDesc) json() vt.Ev {
	recs := make([]any, 0, len(s.recs))
	for _, r := range s.recs {
		kind := "data"
		vals := any(r.vals)
		if s.stype == "template" {
			kind = "template"
			vals = []int{}
		}
		recs = append(recs, vt.Ev{"kind": kind, "tid": r.tid, "fields": absv.FieldsOf(r.ies), "vals": vals})
	}
	return vt.Ev{"stype": s.stype, "hdrId": s.hdrID, "recs": recs}
}

func (s setDesc) build() entities.Set { return s.buildInto(entities.NewSet(false)) }

// buildInto fills the given set object (a fresh one, or one the application recycles with ResetSet)
func (s setDesc) buildInto(set entities.Set) entities.Set {
	set.ResetSet()
	switch s.stype {
	case "template":
		set.PrepareSet(entities.Template, uint16(s.hdrID))
	case "data":
		set.PrepareSet(entities.Data, uint16(s.hdrID))
	default:
		set.ResetSet() // type Undefined
		return set
	}
	var scratch []entities.InfoElementWithValue // ONE slice refilled for every record, as an application would: AddRecord copies
	for _, r := range s.recs {
		if cap(scratch) < len(r.ies) {
			scratch = make([]entities.InfoElementWithValue, len(r.ies))
		}
		elems := scratch[:len(r.ies)]
		for i, ie := range r.ies {
			var e entities.InfoElementWithValue
			var err error
			if r.raw != nil && r.raw[i] != nil {
				e = r.raw[i]
			} else if s.stype == "template" {
				e, err = entities.DecodeAndCreateInfoElementWithValue(ie, nil)
			} else {
				e, err = gen.Elem(ie, r.vals[i])
			}
			if err != nil {
				panic(err)
			}
			elems[i] = e
		}
		if err := set.AddRecord(elems, uint16(r.tid)); err != nil {
			panic(err)
		}
	}
	return set
}

type session struct {
	away    bool         // the harness has closed the collector's UDP socket: nothing can be read, writes may be refused
	recycle entities.Set // when set: every set handed to SendSet is this one object, recycled with ResetSet
	w       *vt.Writer
	p       *peer
	ep      *exporter.ExportingProcess
	evals   int
	dist    map[uint64]bool
	json    bool
}

func newSession(w *vt.Writer, proto string, dom uint32, seq0 uint32, dist map[uint64]bool) *session {
	return newSessionJ(w, proto, dom, seq0, dist, false)
}

func newSessionJ(w *vt.Writer, proto string, dom uint32, seq0 uint32, dist map[uint64]bool, jsonMode bool) *session {
	p := newPeer(proto)
	ep, err := exporter.InitExportingProcess(exporter.ExporterInput{CollectorAddress: p.addr, CollectorProtocol: proto, ObservationDomainID: dom, SendJSONRecord: jsonMode})
	if err != nil {
		panic(err)
	}
	p.accept()
	if seq0 != 0 {
		ep.VerifSetSeqNumber(seq0)
	}
	w.Reset(vt.Ev{"proto": proto, "dom": vt.Limbs(dom), "seq0": vt.Limbs(seq0), "json": jsonMode})
	return &session{w: w, p: p, ep: ep, dist: dist, json: jsonMode}
}

func (s *session) send(d setDesc) { s.sendPre(d, nil) }

// sendPre sends a set described by d; pre, when given, is the (already built, possibly already offered) set object.
func (s *session) sendPre(d setDesc, pre entities.Set) {
	s.evals++
	h := fnv.New64a()
	fmt.Fprint(h, d.stype, d.hdrID, len(d.recs))
	for _, r := range d.recs {
		fmt.Fprint(h, r.tid, len(r.ies), r.vals)
	}
	s.dist[h.Sum64()] = true
	ev := vt.Ev{"e": "Send", "set": d.json()}
	var set entities.Set
	func() {
		defer func() {
			if r := recover(); r != nil {
				ev["e"] = "Panic"
				ev["detail"] = fmt.Sprint(r)
			}
		}()
		if set = pre; set == nil {
			if s.recycle != nil {
				set = d.buildInto(s.recycle)
			} else {
				set = d.build()
			}
		}
		t0 := time.Now().Unix()
		n, err := s.ep.SendSet(set)
		t1 := time.Now().Unix()
		ev["t0"], ev["t1"], ev["ret"], ev["err"] = int(t0), int(t1), n, err != nil
		if err != nil && strings.Contains(err.Error(), "connection refused") {
			ev["refused"] = true
		}
		if s.away {
			ev["away"] = true
			ev["wire"] = []int{}
			return
		}
		if s.json {
			raw := []byte{}
			if err == nil && n > 0 {
				raw = s.p.read(n)
			}
			ev["nbytes"] = len(raw)
			ev["docs"] = parseDocs(raw)
			ev["want"] = wantDocs(d)
			ev["wire"] = []int{}
			return
		}
		if err == nil && n > 0 {
			ev["wire"] = vt.B(s.p.read(n))
		} else {
			ev["wire"] = []int{}
		}
	}()
	s.w.Emit(ev)
}

// parseDocs splits what arrived at the peer into JSON documents and returns, per document, the
// "ipfix" object as field name -> text of the value.
func parseDocs(raw []byte) []map[string]string {
	out := []map[string]string{}
	dec := json.NewDecoder(bytes.NewReader(raw))
	dec.UseNumber()
	for dec.More() {
		var doc struct {
			IPFIX map[string]any `json:"ipfix"`
		}
		if err := dec.Decode(&doc); err != nil {
			out = append(out, map[string]string{"!error": err.Error()})
			break
		}
		m := map[string]string{}
		for k, v := range doc.IPFIX {
			m[k] = fmt.Sprint(v)
		}
		out = append(out, m)
	}
	return out
}

// wantDocs renders the generator's own values the way a JSON reader sees them.
func wantDocs(d setDesc) []map[string]string {
	out := []map[string]string{}
	if d.stype != "data" {
		return out
	}
	for _, r := range d.recs {
		m := map[string]string{}
		for i, ie := range r.ies {
			v := r.vals[i]
			var x uint64
			for _, b := range v {
				x = x<<8 | uint64(b)
			}
			switch ie.DataType {
			case entities.Unsigned8, entities.Unsigned16, entities.Unsigned32, entities.Unsigned64, entities.DateTimeSeconds, entities.DateTimeMilliseconds:
				m[ie.Name] = strconv.FormatUint(x, 10)
			case entities.Signed32:
				m[ie.Name] = strconv.FormatInt(int64(int32(uint32(x))), 10)
			case entities.Boolean:
				m[ie.Name] = strconv.FormatBool(v[0] == 1)
			case entities.String:
				b := make([]byte, len(v))
				for j := range v {
					b[j] = byte(v[j])
				}
				m[ie.Name] = string(b)
			case entities.Ipv4Address:
				m[ie.Name] = fmt.Sprintf("%d.%d.%d.%d", v[0], v[1], v[2], v[3])
			case entities.Ipv6Address:
				b := make(net.IP, 16)
				for j := range v {
					b[j] = byte(v[j])
				}
				m[ie.Name] = b.String()
			}
		}
		out = append(out, m)
	}
	return out
}

func (s *session) end() {
	extra := s.p.drain(30 * time.Millisecond)
	s.w.Emit(vt.Ev{"e": "Quiesce", "extra": vt.B(extra)})
	s.ep.CloseConnToCollector()
	s.p.close()
}

// ---------------------------------------------------------------------------------------------

var pool []*entities.InfoElement

func randTemplate(r *rand.Rand, maxFields int) []*entities.InfoElement {
	n := 1 + r.Intn(maxFields)
	out := make([]*entities.InfoElement, n)
	for i := range out {
		out[i] = pool[r.Intn(len(pool))]
	}
	return out
}

func randVals(r *rand.Rand, ies []*entities.InfoElement, maxVar int) [][]int {
	vals := make([][]int, len(ies))
	allZero := r.Intn(8) == 0 // a record whose every value is zero / empty
	for i, ie := range ies {
		if allZero {
			vals[i] = gen.Zero(ie)
		} else {
			vals[i] = gen.Abs(r, ie, maxVar)
		}
	}
	return vals
}

func tmplSet(tid int, ies []*entities.InfoElement) setDesc {
	return setDesc{stype: "template", hdrID: 2, recs: []rec{{tid: tid, ies: ies}}}
}

// dataSet builds a data set with n records (bounded so that the message fits limit bytes).
func dataSet(r *rand.Rand, tid int, ies []*entities.InfoElement, n int, maxVar int, limit int) setDesc {
	d := setDesc{stype: "data", hdrID: tid}
	total := 20
	for i := 0; i < n; i++ {
		v := randVals(r, ies, maxVar)
		l := recLen(ies, v)
		if total+l > limit {
			break
		}
		total += l
		d.recs = append(d.recs, rec{tid: tid, ies: ies, vals: v})
	}
	return d
}

// padTo builds a one-record data set over template [u8, string] whose message is exactly total bytes.
func padTo(tid int, ies []*entities.InfoElement, total int) setDesc {
	// message = 20 + 1 + 3 + n  (string >= 255 bytes)
	n := total - 24
	v := make([]int, n)
	for i := range v {
		v[i] = 97 + i%26
	}
	return setDesc{stype: "data", hdrID: tid, recs: []rec{{tid: tid, ies: ies, vals: [][]int{{9}, v}}}}
}

func main() {
	flag.Parse()
	thorough := *tier == "thorough"
	registry.LoadRegistry()
	custom, err := gen.RegisterCustom()
	if err != nil {
		panic(err)
	}
	for _, ie := range gen.AllRegistry() {
		if gen.Supported(ie) {
			pool = append(pool, ie)
		}
	}
	for _, ie := range custom {
		if ie.DataType == entities.String && ie.Len != entities.VariableLength {
			continue
		}
		pool = append(pool, ie)
	}
	w, err := vt.Open(*out)
	if err != nil {
		panic(err)
	}
	r := rand.New(rand.NewSource(*seed))
	dist := map[uint64]bool{}
	evals := 0
	u8, _ := registry.GetInfoElement("protocolIdentifier", 0)
	str, _ := registry.GetInfoElement("interfaceName", 0)
	ip4, _ := registry.GetInfoElement("sourceIPv4Address", 0)
	ip6, _ := registry.GetInfoElement("sourceIPv6Address", 0)
	mac, _ := registry.GetInfoElement("sourceMacAddress", 0)
	var oct3 *entities.InfoElement
	for _, ie := range custom {
		if ie.Name == "vOctet3" {
			oct3 = ie
		}
	}

	switch *mode {
	case "c02":
		gen.NonUTF8 = true
		nsess, nmsg := 6, 40
		if thorough {
			nsess, nmsg = 30, 150
		}
		for i := 0; i < nsess; i++ {
			proto := []string{"tcp", "udp"}[i%2]
			limit := 65535
			if proto == "udp" {
				limit = 60000
			}
			s := newSession(w, proto, r.Uint32(), 0, dist)
			tmpls := map[int][]*entities.InfoElement{}
			tids := []int{}
			for j := 0; j < nmsg; j++ {
				if len(tids) == 0 || r.Intn(5) == 0 {
					tid := 256 + len(tids)
					ies := randTemplate(r, 40)
					if r.Intn(4) == 0 { // a template made of every custom type
						ies = append([]*entities.InfoElement{}, custom[:18]...)
					}
					tmpls[tid] = ies
					tids = append(tids, tid)
					s.send(tmplSet(tid, ies))
					continue
				}
				tid := tids[r.Intn(len(tids))]
				n := 1 + r.Intn(6)
				maxVar := 300
				switch r.Intn(12) {
				case 0:
					n = 2000 // as many as fit
				case 1:
					maxVar = 40000
				}
				s.send(dataSet(r, tid, tmpls[tid], n, maxVar, limit))
			}
			// thousands of tiny records in one set (more records than a vectored write takes buffers): one message
			{
				one := []*entities.InfoElement{u8}
				s.send(tmplSet(690, one))
				for _, n := range []int{1021, 1022, 1023, 1024, 1025, 3000 + r.Intn(2000)} {
					s.send(dataSet(r, 690, one, n, 1, limit))
				}
			}
			// a template set with two template records, then data for each of them
			{
				a, b := randTemplate(r, 6), randTemplate(r, 6)
				ta, tb := 700+i*2, 701+i*2
				s.send(setDesc{stype: "template", hdrID: 2, recs: []rec{{tid: ta, ies: a}, {tid: tb, ies: b}}})
				s.send(dataSet(r, tb, b, 1+r.Intn(3), 50, limit))
				s.send(dataSet(r, ta, a, 1+r.Intn(3), 50, limit))
			}
			// a message of exactly the maximum size
			if proto == "tcp" {
				s.send(tmplSet(999, []*entities.InfoElement{u8, str}))
				s.send(padTo(999, []*entities.InfoElement{u8, str}, 65535))
				// just above the limit: must be refused (a transmitted message would carry a wrapped length field)
				for _, total := range []int{65536, 65536 + r.Intn(16), 65551, 65552} {
					s.send(padTo(999, []*entities.InfoElement{u8, str}, total))
				}
				s.send(padTo(999, []*entities.InfoElement{u8, str}, 65530+r.Intn(6)))
			}
			s.end()
			evals += s.evals
		}
		// JSON-record mode (beyond the listed properties): one document per record, templates write nothing
		jpool := []*entities.InfoElement{}
		seen := map[string]bool{}
		for _, ie := range pool {
			switch ie.DataType {
			case entities.Unsigned8, entities.Unsigned16, entities.Unsigned32, entities.Unsigned64, entities.Signed32, entities.Boolean,
				entities.String, entities.Ipv4Address, entities.Ipv6Address, entities.DateTimeSeconds, entities.DateTimeMilliseconds:
				if !seen[ie.Name] {
					seen[ie.Name] = true
					jpool = append(jpool, ie)
				}
			}
		}
		for i := 0; i < nsess/3; i++ {
			s := newSessionJ(w, "tcp", r.Uint32(), 0, dist, true)
			for j := 0; j < 12; j++ {
				tid := 256 + j
				idx := r.Perm(len(jpool))[:1+r.Intn(10)] // distinct element names within one record
				ies := make([]*entities.InfoElement, len(idx))
				for q, x := range idx {
					ies[q] = jpool[x]
				}
				s.send(tmplSet(tid, ies))
				d := setDesc{stype: "data", hdrID: tid}
				for k := 0; k < r.Intn(4); k++ {
					vals := randVals(r, ies, 40)
					for q, ie := range ies {
						if ie.DataType == entities.String {
							for z := range vals[q] {
								vals[q][z] = 97 + vals[q][z]%26
							}
						}
					}
					d.recs = append(d.recs, rec{tid: tid, ies: ies, vals: vals})
				}
				s.send(d)
				if j%5 == 4 {
					s.send(dataSet(r, 999, ies, 1, 10, 4000)) // unknown template: error, nothing written
				}
			}
			s.end()
			evals += s.evals
		}
	case "c08":
		nsess, nmsg := 6, 120
		if thorough {
			nsess, nmsg = 24, 600
		}
		for i := 0; i < nsess; i++ {
			proto := []string{"tcp", "udp"}[i%2]
			seq0 := uint32(0)
			switch i % 3 {
			case 1:
				seq0 = ^uint32(0) - uint32(r.Intn(200))
			case 2:
				seq0 = 1<<31 - uint32(r.Intn(100))
			}
			dom := r.Uint32()
			switch i % 5 {
			case 3:
				dom = 0 // a legal observation domain
			case 4:
				dom = ^uint32(0)
			}
			s := newSession(w, proto, dom, seq0, dist)
			if i%2 == 1 {
				s.recycle = entities.NewSet(false)
			}
			ies := []*entities.InfoElement{u8, str}
			ies2 := []*entities.InfoElement{ip4, u8}
			s.send(tmplSet(256, ies))
			for j := 0; j < nmsg; j++ {
				switch x := r.Intn(20); {
				case x == 0:
					s.send(tmplSet(257, ies2))
					s.send(dataSet(r, 257, ies2, r.Intn(4), 10, 60000))
				case x == 1:
					s.send(tmplSet(256, ies))
					w.Emit(vt.Ev{"e": "NewTid", "id": int(s.ep.NewTemplateID())})
				case x == 2:
					s.send(dataSet(r, 256, ies, 0, 10, 60000)) // empty data set of a known template
				case x == 3:
					s.send(dataSet(r, 256, ies, 100+r.Intn(2000), 3, 60000))
				default:
					s.send(dataSet(r, 256, ies, 1+r.Intn(12), 20, 60000))
				}
			}
			s.end()
			evals += s.evals
		}
		// export time across a second boundary: the process is created half-way through a second and
		// sends again 0.6 s later, in the next second (an export time derived from "start second + whole
		// seconds elapsed" would still show the old one)
		for _, proto := range []string{"tcp", "udp"} {
			for time.Now().Nanosecond()/1e6 < 450 || time.Now().Nanosecond()/1e6 > 550 {
				time.Sleep(5 * time.Millisecond)
			}
			s := newSession(w, proto, r.Uint32(), 0, dist)
			ies := []*entities.InfoElement{u8, str}
			s.send(tmplSet(256, ies))
			for k := 0; k < 3; k++ {
				time.Sleep(300 * time.Millisecond)
				s.send(dataSet(r, 256, ies, 1+r.Intn(3), 10, 60000))
			}
			s.end()
			evals += s.evals
		}
		// the UDP collector goes away and comes back on the same port: what was written meanwhile vanished or was
		// refused (outside the statement); every message sent successfully afterwards carries the right counter
		for k := 0; k < 2; k++ {
			s := newSession(w, "udp", r.Uint32(), 0, dist)
			ies := []*entities.InfoElement{u8, str}
			s.send(tmplSet(256, ies))
			s.send(dataSet(r, 256, ies, 2, 10, 60000))
			s.p.away()
			s.away = true
			s.send(dataSet(r, 256, ies, 1+r.Intn(3), 10, 60000)) // vanishes; the kernel learns that the port is closed
			time.Sleep(30 * time.Millisecond)
			if k == 1 {
				s.send(dataSet(r, 256, ies, 1, 10, 60000)) // refused
			}
			if !s.p.back() {
				s.p.udp, _ = net.ListenUDP("udp", &net.UDPAddr{IP: net.IPv4(127, 0, 0, 1)}) // (only to have something to close)
				s.end()
				continue
			}
			s.away = false
			for q := 0; q < 4; q++ {
				s.send(dataSet(r, 256, ies, 1+r.Intn(3), 10, 60000)) // the first may still be refused (an earlier datagram's error)
			}
			s.end()
			evals += s.evals
		}
	case "c09":
		nsess, nmsg := 6, 60
		if thorough {
			nsess, nmsg = 24, 200
		}
		for i := 0; i < nsess; i++ {
			proto := []string{"tcp", "tcp", "udp"}[i%3]
			s := newSession(w, proto, r.Uint32(), 0, dist)
			big := []*entities.InfoElement{u8, str}
			s.send(tmplSet(256, big))
			addr := []*entities.InfoElement{ip4, ip6, mac, oct3, str}
			s.send(tmplSet(257, addr))
			for j := 0; j < nmsg; j++ {
				switch x := r.Intn(19); {
				case x == 0: // unknown template id
					d := dataSet(r, 300+r.Intn(3), big, r.Intn(4), 10, 60000)
					s.send(d)
					for q := 0; q < r.Intn(3); q++ { // the same refused set offered again
						s.send(d)
					}
				case x == 1: // wrong field count
					wrong := [][]*entities.InfoElement{{u8}, {u8, str, u8}, {}}[r.Intn(3)]
					s.send(dataSet(r, 256, wrong, 1+r.Intn(2), 10, 60000))
				case x == 2: // second record wrong
					d := dataSet(r, 256, big, 2, 10, 60000)
					d.recs = append(d.recs, rec{tid: 256, ies: []*entities.InfoElement{u8}, vals: [][]int{{1}}})
					s.send(d)
				case x == 3 && proto == "tcp" && (thorough || j%4 == 0): // sizes around the limit
					s.send(padTo(256, big, 65519+r.Intn(22)))
				case x == 4: // undefined set type
					s.send(setDesc{stype: "undef"})
				case x == 12 && j%3 == 0: // more than a thousand one-byte records in one set
					one := []*entities.InfoElement{u8}
					s.send(tmplSet(690, one))
					s.send(dataSet(r, 690, one, 1020+r.Intn(1200), 1, 60000))
				case x == 10: // an IPv4 address given in its 4-byte form for an ipv6Address element: sent as ::ffff:a.b.c.d
					v := randVals(r, addr, 20)
					a4 := []byte{byte(1 + r.Intn(223)), byte(r.Intn(256)), byte(r.Intn(256)), byte(1 + r.Intn(254))}
					v[1] = []int{0, 0, 0, 0, 0, 0, 0, 0, 0, 0, 0xff, 0xff, int(a4[0]), int(a4[1]), int(a4[2]), int(a4[3])}
					raw := make([]entities.InfoElementWithValue, len(addr))
					raw[1] = entities.NewIPAddressInfoElement(ip6, net.IP(a4))
					s.send(setDesc{stype: "data", hdrID: 257, recs: []rec{{tid: 257, ies: addr, vals: v, raw: raw}}})
				case x == 11: // wrong field counts that cancel out over the set: one field too many, one too few
					long := rec{tid: 256, ies: []*entities.InfoElement{u8, str, u8}, vals: [][]int{{1}, {65, 66}, {2}}}
					short := rec{tid: 256, ies: []*entities.InfoElement{str}, vals: [][]int{{67, 68, 69}}}
					d := setDesc{stype: "data", hdrID: 256, recs: []rec{long, short}}
					if r.Intn(2) == 0 {
						d.recs = []rec{short, long}
					}
					if r.Intn(2) == 0 {
						d.recs = append(d.recs, dataSet(r, 256, big, 1, 10, 60000).recs...)
					}
					s.send(d)
				case x == 5: // ill-typed values
					v := randVals(r, addr, 20)
					k := r.Intn(5)
					switch k {
					case 0: // IPv6 address in an IPv4 element
						v[0] = []int{0x20, 1, 0, 0, 0, 0, 0, 0, 0, 0, 0, 0, 0, 0, 0, 1}
					case 1: // 3-byte MAC
						v[2] = []int{1, 2, 3}
					case 2: // 8-byte MAC
						v[2] = []int{1, 2, 3, 4, 5, 6, 7, 8}
					case 3: // fixed-length octet array of the wrong length
						v[3] = [][]int{{1, 2}, {1, 2, 3, 4}, {}}[r.Intn(3)]
					case 4: // 5-byte address in an IPv6 element
						v[1] = []int{1, 2, 3, 4, 5}
					}
					d := setDesc{stype: "data", hdrID: 257, recs: []rec{{tid: 257, ies: addr, vals: v}}}
					if r.Intn(2) == 0 {
						d.recs = append([]rec{{tid: 257, ies: addr, vals: randVals(r, addr, 20)}}, d.recs...)
					}
					if k <= 2 && r.Intn(2) == 0 {
						// refused, corrected in place through the element's setter, the SAME set offered again:
						// what is transmitted then is the corrected value
						set := d.build()
						s.sendPre(d, set)
						last := set.GetRecords()[len(d.recs)-1].GetOrderedElementList()
						good := d
						good.recs = append([]rec{}, d.recs...)
						gv := append([][]int{}, v...)
						if k == 0 {
							gv[0] = []int{10, 1, 2, 3}
							last[0].SetIPAddressValue(net.IP{10, 1, 2, 3})
						} else {
							gv[2] = []int{2, 4, 6, 8, 10, 12}
							last[2].SetMacAddressValue(net.HardwareAddr{2, 4, 6, 8, 10, 12})
						}
						good.recs[len(good.recs)-1] = rec{tid: 257, ies: addr, vals: gv}
						s.sendPre(good, set)
						continue
					}
					s.send(d)
				case x == 6: // a template that does not fit
					ies := make([]*entities.InfoElement, 16378+r.Intn(40)) // 4 bytes per specifier: a set of more than 65519 bytes
					for q := range ies {
						ies[q] = str
					}
					if proto == "tcp" {
						s.send(tmplSet(400, ies))
					}
				case x == 9: // first record built for the set's template, a later one for another known template
					d := dataSet(r, 256, big, 1+r.Intn(2), 10, 60000)
					d.recs = append(d.recs, rec{tid: 257, ies: addr, vals: randVals(r, addr, 20)})
					if r.Intn(2) == 0 {
						d.recs = append(d.recs, dataSet(r, 256, big, 1, 10, 60000).recs...)
					}
					s.send(d)
				case x == 8: // records built for another (known) template than the set's
					d := dataSet(r, 257, addr, 1+r.Intn(2), 10, 60000)
					d.hdrID = 256
					s.send(d)
				case x == 7: // re-sending a known template id
					s.send(tmplSet(256, big))
				default:
					if r.Intn(2) == 0 {
						s.send(dataSet(r, 256, big, 1+r.Intn(5), 300, 60000))
					} else {
						s.send(dataSet(r, 257, addr, 1+r.Intn(5), 300, 60000))
					}
				}
			}
			if proto == "tcp" && (thorough || i == 0) { // the whole size sweep (quick: in the first session only)
				for total := 65519; total <= 65540; total++ {
					s.send(padTo(256, big, total))
				}
			}
			s.send(dataSet(r, 256, big, 2, 10, 60000))
			s.end()
			evals += s.evals
		}
	default:
		fmt.Fprintln(os.Stderr, "unknown mode")
		os.Exit(3)
	}
	w.Close()
	vt.PrintSummary(vt.Summary{Events: w.Events(), Traces: w.Traces(), Evaluations: evals, Distinct: len(dist)})
}
