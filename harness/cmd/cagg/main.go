//go:build verif

// cagg: the aggregation process driven sequentially under virtual time (C05, C06, C07).
package main

import (
	"bufio"
	"encoding/json"
	"flag"
	"fmt"
	"github.com/vmware/go-ipfix/pkg/intermediate"
	"hash/fnv"
	"math/rand"
	"os"
	"sort"
	"strings"

	"github.com/vmware/go-ipfix/pkg/registry"

	"verif/harness/agg"
	"verif/harness/vt"
)

var (
	out   = flag.String("out", "trace.ndjson", "trace file")
	seed  = flag.Int64("seed", 1, "seed")
	tier  = flag.String("tier", "quick", "quick|thorough")
	mode  = flag.String("mode", "c06", "c05|c06|c07")
	sched = flag.String("sched", "", "schedules (jsonl) from TLC's state graph")
	wide  = flag.Bool("wide", false, "timeouts of 20 and 30 units instead of 2 and 3 (scans a small fraction of a timeout before a deadline); random histories only")
)

type nodeState struct {
	end  int
	vals []int
}

type sys struct {
	w      *vt.Writer
	p      *agg.P
	last   map[string]*nodeState // key/node -> last record (contract bookkeeping of the generator)
	start  map[string]int
	global bool
}

func newSys(w *vt.Writer, tag string) *sys {
	p := agg.New(2, 3, 1, 1)
	if *wide {
		// the library's MinExpiryTime (a package variable, 100 ms by default: invisible against units of an hour) is made
		// 5 units here, so that everything the code derives from it is visible to the model (constant MinU)
		intermediate.MinExpiryTime = 5 * agg.Unit
		p = agg.New(20, 30, 1, 1)
	}
	w.Reset(vt.Ev{"tag": tag})
	return &sys{w: w, p: p, last: map[string]*nodeState{}, start: map[string]int{}}
}

// mkRec builds a record of the given kind obeying the exporter contract (unless stale is set).
func (s *sys) mkRec(r *rand.Rand, k, kind string, stale bool, bigVals bool) agg.Rec {
	rec := agg.Rec{Key: k, Reason: 2, Ftype: 2, Cip: []int{0, 0, 0, 0}}
	switch kind {
	case "intra":
		rec.Sp, rec.Dp, rec.Sns, rec.Dns, rec.Ftype = "pod-a", "pod-b", "ns-a", "ns-b", 1
	case "toext":
		rec.Sp, rec.Sns, rec.Ftype = "pod-a", "ns-a", 3
	case "src":
		rec.Sp, rec.Sns = "pod-a", "ns-a"
		if !s.global && r.Intn(5) == 0 {
			rec.Sp = "pod-a-replacement" // the same node reports again, its Pod has another name by now
		}
		if !s.global {
			rec.Egress = r.Intn(2) // none / allow
			if r.Intn(4) == 0 {
				rec.Dns = "ns-b-seen-from-a" // a field of the other side's naming that this node happens to know
			}
		}
	case "dst":
		rec.Dp, rec.Dns = "pod-b", "ns-b"
		if !s.global && r.Intn(5) == 0 {
			rec.Dp = "pod-b-replacement"
		}
		if !s.global {
			rec.Ingress = r.Intn(2)
			if r.Intn(4) == 0 {
				rec.Sns = "ns-a-seen-from-b"
			}
			if r.Intn(2) == 0 {
				rec.Cip = []int{10, 96, r.Intn(3), 1 + r.Intn(3)} // the Service's cluster IP, as one node knows it
			}
			rec.Prio = []int{0, 0, 1, 50000, -1, -2147483648, 2147483647}[r.Intn(7)]
		}
	case "deny": // inter-node, denied at egress: ready at once
		rec.Sp, rec.Sns, rec.Egress = "pod-a", "ns-a", 2+r.Intn(2)
	case "reject": // inter-node, rejected at ingress
		rec.Dp, rec.Dns, rec.Ingress = "pod-b", "ns-b", 3
	}
	node := kind
	if kind == "intra" || kind == "toext" || kind == "deny" || kind == "reject" {
		node = "single"
	}
	id := k + "/" + node
	if s.global {
		// records of arbitrary kinds are mixed on one flow (graph replay): one monotone stream per key
		// keeps every node's totals non-decreasing and end times increasing whichever fields they fill
		id = k + "/all"
	}
	ls := s.last[id]
	if _, ok := s.start[k]; !ok {
		s.start[k] = 1000 + r.Intn(50)
	}
	rec.Start = s.start[k]
	if !s.global {
		// each reporting node has its own view of when the flow started
		if _, ok := s.start[id]; !ok {
			s.start[id] = s.start[k] - r.Intn(4)
		}
		rec.Start = s.start[id]
	}
	prevEnd := rec.Start
	prevVals := []int{0, 0, 0, 0, 0, 0}
	if ls != nil {
		prevEnd, prevVals = ls.end, ls.vals
	}
	rec.End = prevEnd + 1 + r.Intn(4)
	if !s.global && ls != nil && r.Intn(5) == 0 {
		// the exporter re-states when the flow started: later than this node's previous end time is allowed (end > start)
		rec.Start = prevEnd + r.Intn(rec.End-prevEnd)
	}
	stale = stale && ls != nil
	if stale {
		rec.End = prevEnd - r.Intn(2)
	}
	rec.Vals = make([]int, 6)
	for i := range rec.Vals {
		step := r.Intn(50)
		if bigVals {
			step = r.Intn(1 << 20)
		}
		if i == 1 || i == 4 { // deltas: any value
			rec.Vals[i] = step
		} else {
			rec.Vals[i] = prevVals[i] + step
		}
	}
	// the two nodes of an inter-node flow agree: same end second, same totals as the other node's last record
	// (allowed by the contract whenever that does not take this node's own counters or clock backwards)
	if other := map[string]string{"src": "dst", "dst": "src"}[kind]; other != "" && !s.global && !stale && r.Intn(5) == 0 {
		if o := s.last[k+"/"+other]; o != nil && o.end > prevEnd {
			ok := true
			for _, i := range []int{0, 2, 3, 5} {
				ok = ok && o.vals[i] >= prevVals[i]
			}
			if ok {
				rec.End = o.end
				for _, i := range []int{0, 2, 3, 5} {
					rec.Vals[i] = o.vals[i]
				}
			}
		}
	}
	if !stale {
		s.last[id] = &nodeState{end: rec.End, vals: rec.Vals}
	} else {
		// the code overwrites the node's end time even for a record it does not aggregate
		s.last[id] = &nodeState{end: rec.End, vals: ls.vals}
	}
	if r.Intn(6) == 0 {
		rec.Reason = 3
	}
	return rec
}

func (s *sys) forget(k string) {
	for id := range s.last {
		if strings.HasPrefix(id, k+"/") {
			delete(s.last, id)
		}
	}
	delete(s.start, k)
	for id := range s.start {
		if strings.HasPrefix(id, k+"/") {
			delete(s.start, id)
		}
	}
}

func (s *sys) ingest(rec agg.Rec) {
	err := s.p.A.AggregateMsgByFlowKey(agg.BuildMessage(rec))
	s.w.Emit(s.p.Snapshot(vt.Ev{"e": "Ingest", "r": rec, "err": err != nil}))
}

// ingestBatch: one message carrying several records (of different flows); the state is observable only after
// the whole message, so all but the last record are logged without a snapshot (IngestPart)
func (s *sys) ingestBatch(recs []agg.Rec) {
	err := s.p.A.AggregateMsgByFlowKey(agg.BuildMessage(recs...))
	for _, rec := range recs[:len(recs)-1] {
		s.w.Emit(vt.Ev{"e": "IngestPart", "r": rec})
	}
	s.w.Emit(s.p.Snapshot(vt.Ev{"e": "Ingest", "r": recs[len(recs)-1], "err": err != nil}))
}

func (s *sys) advance(d int) {
	s.p.Advance(d)
	s.w.Emit(s.p.Snapshot(vt.Ev{"e": "Advance", "d": d}))
}

func (s *sys) scan(fail []string) {
	fm := map[string]bool{}
	for _, k := range fail {
		fm[k] = true
	}
	before, _, _ := s.p.A.VerifSnapshot()
	calls, err := s.p.Scan(fm)
	ev := s.p.Snapshot(vt.Ev{"e": "Scan", "fail": fail, "calls": calls, "err": err != nil})
	s.w.Emit(ev)
	// flows that disappeared start afresh in the generator's contract bookkeeping
	after, _, _ := s.p.A.VerifSnapshot()
	held := map[string]bool{}
	for _, f := range after {
		held[agg.KeyName(f.Key)] = true
	}
	for _, f := range before {
		if n := agg.KeyName(f.Key); !held[n] {
			s.forget(n)
		}
	}
}

func (s *sys) resetStats(k string) {
	s.p.ResetStats(k)
	s.w.Emit(s.p.Snapshot(vt.Ev{"e": "ResetStats", "k": k}))
}

func (s *sys) holds(k string) bool {
	fl, _, _ := s.p.A.VerifSnapshot()
	for _, f := range fl {
		if agg.KeyName(f.Key) == k {
			return true
		}
	}
	return false
}

type action struct {
	A    string `json:"a"`
	Args []any  `json:"args"`
}

func main() {
	flag.Parse()
	thorough := *tier == "thorough"
	registry.LoadRegistry()
	w, err := vt.Open(*out)
	if err != nil {
		panic(err)
	}
	r := rand.New(rand.NewSource(*seed))
	dist := map[uint64]bool{}
	evals := 0
	if *mode == "c06many" {
		// hundreds of flows due in the same scan (spec/AggMany.tla): 5-tuples made on the fly, one record each
		for _, n := range []int{100, 128, 129, 150, 400} {
			p := agg.New(2, 3, 1, 1)
			w.Reset(vt.Ev{"tag": "many", "n": n})
			keyOf := map[intermediate.FlowKey]int{}
			for i := 1; i <= n; i++ {
				evals++
				name := fmt.Sprintf("m%d", i)
				agg.Pool[name] = agg.Tuple{Src: fmt.Sprintf("10.1.%d.%d", i/250, 1+i%250), Dst: "10.2.0.1", Proto: 6, SPort: uint16(1000 + i), DPort: 80}
				keyOf[agg.Pool[name].FlowKey()] = i
				rec := agg.Rec{Key: name, Sp: "pod-a", Dp: "pod-b", Sns: "ns-a", Dns: "ns-b", Ftype: 1, Reason: 2, Start: 1000, End: 1001 + i%7,
					Vals: []int{1, 1, 1, 1, 1, 1}, Cip: []int{0, 0, 0, 0}}
				if err := p.A.AggregateMsgByFlowKey(agg.BuildMessage(rec)); err != nil {
					panic(err)
				}
			}
			w.Emit(vt.Ev{"e": "NewFlows", "n0": 1, "n1": n})
			p.Advance(4) // beyond the inactive timeout (3 units) of every flow
			w.Emit(vt.Ev{"e": "PassAll"})
			calls := []int{}
			err := p.A.ForAllExpiredFlowRecordsDo(func(k intermediate.FlowKey, _ *intermediate.AggregationFlowRecord) error {
				calls = append(calls, keyOf[k])
				return nil
			})
			_, heap, _ := p.A.VerifSnapshot()
			w.Emit(vt.Ev{"e": "ScanAll", "calls": calls, "left": int(p.A.GetNumFlows()), "queued": len(heap), "err": err != nil})
			for i := 1; i <= n; i++ {
				delete(agg.Pool, fmt.Sprintf("m%d", i))
			}
			dist[uint64(n)] = true
		}
		w.Close()
		vt.PrintSummary(vt.Summary{Events: w.Events(), Traces: w.Traces(), Evaluations: evals, Distinct: len(dist)})
		return
	}
	if *mode == "c05big" {
		// counters between 2^40 and 2^60 on one intra-node flow per history (spec/trace/C05BigTrace.tla)
		l4 := func(x uint64) []int {
			return []int{int(x & 0xffff), int(x >> 16 & 0xffff), int(x >> 32 & 0xffff), int(x >> 48 & 0xffff)}
		}
		nh := 60
		if thorough {
			nh = 600
		}
		keys := []string{"k1", "k4", "k6"}
		for i := 0; i < nh; i++ {
			p := agg.New(2, 3, 1, 1)
			w.Reset(vt.Ev{"tag": "big"})
			k := keys[r.Intn(len(keys))]
			fk := agg.Pool[k].FlowKey()
			start := 1000 + r.Intn(50)
			end := start
			var oct, roct uint64
			for j := 0; j < 3+r.Intn(4); j++ {
				evals++
				grow := func() uint64 {
					switch r.Intn(4) {
					case 0:
						return uint64(r.Intn(3))
					case 1: // just around 2^51..2^53, where float64 stops being exact for 8 x growth
						return 1<<uint(51+r.Intn(3)) + uint64(r.Intn(16))
					}
					return 1<<uint(40+r.Intn(18)) + uint64(r.Int63n(1<<40))
				}
				oct, roct = oct+grow(), roct+grow()
				if oct >= 1<<60 || roct >= 1<<60 {
					break
				}
				end += 1 + r.Intn(9)
				rec := agg.Rec{Key: k, Sp: "pod-a", Dp: "pod-b", Sns: "ns-a", Dns: "ns-b", Ftype: 1, Reason: 2, Start: start, End: end, Cip: []int{0, 0, 0, 0},
					Vals: []int{10 * (j + 1), 10, int(oct), 20 * (j + 1), 20, int(roct)}}
				err := p.A.AggregateMsgByFlowKey(agg.BuildMessage(rec))
				ev := vt.Ev{"e": "Big", "err": err != nil, "start": start, "end": end, "oct": [][]int{l4(oct), l4(roct)}}
				recs := p.A.GetRecords(&fk)
				if len(recs) != 1 {
					ev["err"] = true
				} else {
					g := func(n string) []int {
						if v, ok := recs[0][n].(uint64); ok {
							return l4(v)
						}
						return []int{-1, -1, -1, -1}
					}
					ev["com"] = [][]int{g("octetTotalCount"), g("reverseOctetTotalCount")}
					ev["tp"] = [][]int{g("throughput"), g("reverseThroughput")}
					ev["tpS"] = [][]int{g("throughputFromSourceNode"), g("reverseThroughputFromSourceNode")}
					ev["tpD"] = [][]int{g("throughputFromDestinationNode"), g("reverseThroughputFromDestinationNode")}
				}
				w.Emit(ev)
				dist[oct^roct] = true
			}
		}
		w.Close()
		vt.PrintSummary(vt.Summary{Events: w.Events(), Traces: w.Traces(), Evaluations: evals, Distinct: len(dist)})
		return
	}
	// engine A: schedules from TLC's state graph of AggExpiryMC
	if *sched != "" {
		f, err := os.Open(*sched)
		if err != nil {
			panic(err)
		}
		sc := bufio.NewScanner(f)
		sc.Buffer(make([]byte, 1<<20), 1<<26)
		for sc.Scan() {
			var acts []action
			if err := json.Unmarshal(sc.Bytes(), &acts); err != nil {
				panic(err)
			}
			h := fnv.New64a()
			fmt.Fprint(h, sc.Text())
			dist[h.Sum64()] = true
			s := newSys(w, "graph")
			s.global = true
			for _, a := range acts {
				evals++
				switch a.A {
				case "AIngest":
					s.ingest(s.mkRec(r, a.Args[0].(string), a.Args[1].(string), false, false))
				case "AAdvance":
					s.advance(1)
				case "AScan":
					// args: order (a TLA+ tuple, ignored: the real heap decides), fail (a TLA+ set)
					fail := []string{}
					for _, k := range []string{"k1", "k2", "k3"} {
						if strings.Contains(fmt.Sprint(a.Args[len(a.Args)-1]), `"`+k+`"`) {
							fail = append(fail, k)
						}
					}
					s.scan(fail)
				default:
					panic("unknown action " + a.A)
				}
			}
		}
		f.Close()
	}
	// engine B: random histories
	n := 400
	if thorough {
		n = 4000
	}
	if *wide {
		n /= 3
	}
	keys := []string{"k1", "k2", "k3", "k4", "k5", "k6"}
	if *mode == "c05" {
		keys = []string{"k1", "k9", "k10", "k4", "k11", "k6"} // incl. 5-tuples of port-less protocols that differ in the port fields only
	}
	kinds := []string{"intra", "toext", "src", "dst", "deny", "reject"}
	for i := 0; i < n; i++ {
		s := newSys(w, "rnd-"+*mode)
		nk := 1 + r.Intn(5)
		flowKind := map[string][]string{} // per flow a consistent classification
		steps := 10 + r.Intn(50)
		h := fnv.New64a()
		for j := 0; j < steps; j++ {
			evals++
			k := keys[r.Intn(nk)]
			if !s.holds(k) {
				delete(flowKind, k)
				s.forget(k)
			}
			if _, ok := flowKind[k]; !ok {
				switch r.Intn(3) {
				case 0:
					flowKind[k] = []string{"src", "dst"}
				case 1:
					flowKind[k] = []string{kinds[[]int{0, 1, 4, 5}[r.Intn(4)]]}
				default:
					flowKind[k] = []string{"src", "dst"}
					if *mode == "c07" && r.Intn(3) == 0 {
						flowKind[k] = []string{[]string{"src", "dst"}[r.Intn(2)]} // never correlated
					}
				}
			}
			x := r.Intn(100)
			fmt.Fprint(h, k, x)
			switch *mode {
			case "c05":
				switch {
				case x < 4:
					// the flow updated last is exported and removed by an inactive expiry, and the very next record
					// carries the same 5-tuple: a new flow, nothing of the old one
					kd := flowKind[k][r.Intn(len(flowKind[k]))]
					s.ingest(s.mkRec(r, k, kd, false, false))
					s.advance(3)
					s.scan(nil)
					if !s.holds(k) {
						delete(flowKind, k)
						s.forget(k)
						flowKind[k] = []string{kinds[[]int{0, 1}[r.Intn(2)]]}
					}
					s.ingest(s.mkRec(r, k, flowKind[k][0], false, false))
					s.ingest(s.mkRec(r, k, flowKind[k][0], false, false))
				case x < 70:
					kd := flowKind[k][r.Intn(len(flowKind[k]))]
					s.ingest(s.mkRec(r, k, kd, false, r.Intn(4) == 0))
				case x < 85:
					if s.holds(k) {
						s.resetStats(k)
					}
				case x < 93:
					s.advance(1)
				default:
					s.scan(nil)
				}
			default: // c06, c07
				switch {
				case x < 8 && nk >= 2, x == 8: // one message with records of several flows, and of the same flow twice
					var recs []agg.Rec
					for _, kk := range keys[:nk] {
						if fk, ok := flowKind[kk]; ok && s.holds(kk) || kk == k {
							if !ok {
								fk = flowKind[k]
							}
							recs = append(recs, s.mkRec(r, kk, fk[r.Intn(len(fk))], false, false))
						}
					}
					if x == 8 || r.Intn(2) == 0 {
						// a second (and third) record of flow k in the same message - typically the other node's record
						// of an inter-node flow: every record of a message counts, in message order
						for n := 1 + r.Intn(2); n > 0; n-- {
							fk := flowKind[k]
							recs = append(recs, s.mkRec(r, k, fk[r.Intn(len(fk))], false, false))
						}
					}
					s.ingestBatch(recs)
				case x < 45:
					kd := flowKind[k][r.Intn(len(flowKind[k]))]
					s.ingest(s.mkRec(r, k, kd, r.Intn(10) == 0, false))
				case x < 70:
					if *wide {
						s.advance([]int{1, 2, 9, 10, 17, 18, 19, 20, 28, 29}[r.Intn(10)])
					} else {
						s.advance(1 + r.Intn(2))
					}
				default:
					fail := []string{}
					if *mode == "c06" && r.Intn(2) == 0 {
						for _, kk := range keys[:nk] {
							if r.Intn(3) == 0 {
								fail = append(fail, kk)
							}
						}
					}
					sort.Strings(fail)
					s.scan(fail)
				}
			}
		}
		dist[h.Sum64()] = true
	}
	w.Close()
	vt.PrintSummary(vt.Summary{Events: w.Events(), Traces: w.Traces(), Evaluations: evals, Distinct: len(dist)})
}
