//go:build verif

// ccoll: the collector's decode path driven in-process (C03, C04, C17).
package main

import (
	"encoding/json"
	"flag"
	"fmt"
	"hash/fnv"
	"math/rand"
	"os"
	"runtime"
	"strings"
	"sync"
	"sync/atomic"

	"github.com/vmware/go-ipfix/pkg/collector"
	"github.com/vmware/go-ipfix/pkg/entities"
	"github.com/vmware/go-ipfix/pkg/registry"

	"verif/harness/absv"
	"verif/harness/coll"
	"verif/harness/gen"
	"verif/harness/vt"
)

var (
	out   = flag.String("out", "trace.ndjson", "trace file")
	seed  = flag.Int64("seed", 1, "seed")
	tier  = flag.String("tier", "quick", "quick|thorough")
	mode  = flag.String("mode", "c04", "c03|c04|c17")
	regfn = flag.String("reg", "registry.json", "registry dump")
)

var modes = []collector.DecodingMode{collector.DecodingModeStrict, collector.DecodingModeLenientKeepUnknown, collector.DecodingModeLenientDropUnknown}

type drv struct {
	w            *vt.Writer
	evals        int
	dist         map[uint64]bool
	logStore     bool
	measureAlloc bool
}

type sess struct {
	d *drv
	c *coll.C
}

func (d *drv) open(m collector.DecodingMode, tag string) *sess {
	c, err := coll.New("tcp", m, 0, nil)
	if err != nil {
		panic(err)
	}
	d.w.Reset(vt.Ev{"mode": string(m), "tag": tag})
	c.MeasureAlloc = d.measureAlloc
	return &sess{d: d, c: c}
}

func firstLine(s string) string {
	if i := strings.IndexByte(s, '\n'); i >= 0 {
		return s[:i]
	}
	return s
}

func (s *sess) recv(b []byte) string {
	d := s.d
	d.evals++
	h := fnv.New64a()
	h.Write(b)
	d.dist[h.Sum64()] = true
	o := s.c.Decode(b)
	ev := vt.Ev{"e": "Recv", "bytes": vt.B(b), "kind": o.Kind, "nmsg": int(s.c.CP.GetNumRecordsReceived())}
	switch o.Kind {
	case "Tmpl":
		tid, fields := coll.ProjectTemplate(o.Msg)
		ev["tid"], ev["fields"] = tid, fields
	case "Data":
		recs, rfields, err := coll.ProjectData(o.Msg)
		if err != nil {
			ev["kind"] = "ProjErr"
			ev["detail"] = err.Error()
		} else {
			ev["recs"], ev["rfields"] = recs, rfields
			ev["tid"] = int(uint16(b[16])<<8 | uint16(b[17]))
			ev["dom"] = vt.Limbs(o.Msg.GetObsDomainID())
		}
	case "Panic":
		ev["e"] = "Panic"
		ev["detail"] = firstLine(o.Panic)
	case "Hang":
		ev["e"] = "Hang"
	case "Alloc":
		ev["e"] = "Alloc"
		ev["detail"] = o.Panic
	case "Err":
		ev["detail"] = firstLine(fmt.Sprint(o.Err))
	}
	if d.logStore && o.Kind != "Hang" {
		st := make([]any, 0)
		for _, t := range s.c.CP.VerifTemplates() {
			fs := make([]absv.Field, len(t.IEs))
			for i := range t.IEs {
				fs[i] = absv.FieldOf(&t.IEs[i])
			}
			st = append(st, vt.Ev{"dom": vt.Limbs(t.ObsDomainID), "tid": int(t.TemplateID), "fields": fs})
		}
		ev["store"] = st
	}
	d.w.Emit(ev)
	if o.Kind == "Hang" {
		d.finish()
		os.Exit(0)
	}
	return o.Kind
}

func (d *drv) finish() {
	d.w.Close()
	vt.PrintSummary(vt.Summary{Events: d.w.Events(), Traces: d.w.Traces(), Evaluations: d.evals, Distinct: len(d.dist)})
}

func dumpRegistry(custom []*entities.InfoElement) {
	all := gen.AllRegistry()
	all = append(all, custom...)
	fs := make([]absv.Field, len(all))
	for i, ie := range all {
		fs[i] = absv.FieldOf(ie)
	}
	b, _ := json.Marshal(fs)
	if err := os.WriteFile(*regfn, b, 0o644); err != nil {
		panic(err)
	}
}

func tmplMsg(dom uint32, tid int, specs []absv.Spec) []byte {
	return absv.Message(1700000000, 0, dom, 2, absv.TemplateBody(tid, specs))
}
func dataMsg(dom uint32, tid int, body []byte) []byte {
	return absv.Message(1700000001, 5, dom, tid, body)
}

// ---------------------------------------------------------------------------------------------

func main() {
	flag.Parse()
	thorough := *tier == "thorough"
	registry.LoadRegistry()
	custom, err := gen.RegisterCustom()
	if err != nil {
		panic(err)
	}
	dumpRegistry(custom)
	w, err := vt.Open(*out)
	if err != nil {
		panic(err)
	}
	d := &drv{w: w, dist: map[uint64]bool{}}
	r := rand.New(rand.NewSource(*seed))
	switch *mode {
	case "c04":
		runC04(d, r, thorough)
	case "c17":
		runC17(d, r, thorough, custom)
	case "c03":
		d.measureAlloc = true
		runC03(d, r, thorough, custom)
	case "none": // registry dump only
	default:
		os.Exit(3)
	}
	d.finish()
}

var (
	sU8  = absv.Spec{ID: 4, Len: 1}
	sU16 = absv.Spec{ID: 7, Len: 2}
	sU32 = absv.Spec{ID: 10, Len: 4}
	sU64 = absv.Spec{ID: 1, Len: 8}
	sStr = absv.Spec{ID: 82, Len: 65535}
	sIP4 = absv.Spec{ID: 8, Len: 4}
	sUnk = absv.Spec{ID: 999, Len: 2}
	sMic = absv.Spec{ID: 154, Len: 8} // flowStartMicroseconds: unsupported type
	sOc3 = absv.Spec{ID: 103, Len: 3, Ent: gen.CustomEnt}
)

// ------------------------------------------------------------------------------------------ C04

type act struct {
	name string
	f    func(dom uint32, tid int) []byte
}

func c04Alphabet() []act {
	return []act{
		{"T1", func(d uint32, t int) []byte { return tmplMsg(d, t, []absv.Spec{sU8, sU16}) }},
		{"T2", func(d uint32, t int) []byte { return tmplMsg(d, t, []absv.Spec{sU16, sU8}) }},
		{"T3", func(d uint32, t int) []byte { return tmplMsg(d, t, []absv.Spec{sStr}) }},
		{"T4", func(d uint32, t int) []byte { return tmplMsg(d, t, []absv.Spec{sU8, sUnk}) }},
		{"T5", func(d uint32, t int) []byte { return tmplMsg(d, t, []absv.Spec{{ID: 999, Len: 1}, sU8, sU8}) }}, // the same unknown element, another length
		// the same ids, types and lengths in the same positions, another enterprise number (an element and its RFC 5103 reverse)
		{"T6", func(d uint32, t int) []byte { return tmplMsg(d, t, []absv.Spec{{ID: 2, Len: 8}, sU8}) }},
		{"T7", func(d uint32, t int) []byte { return tmplMsg(d, t, []absv.Spec{{ID: 2, Len: 8, Ent: 29305}, sU8}) }},
		{"Data9", func(d uint32, t int) []byte { return dataMsg(d, t, []byte{0, 0, 0, 0, 0, 0, 1, 44, 6}) }},
		{"BadLate", func(d uint32, t int) []byte {
			b := absv.TemplateBody(t, []absv.Spec{sU8, sU16, sU8})
			return absv.Message(1, 0, d, 2, b[:len(b)-6])
		}},
		{"BadType", func(d uint32, t int) []byte { return tmplMsg(d, t, []absv.Spec{sU8, sMic}) }},
		{"BadEarly", func(d uint32, t int) []byte { return absv.Message(1, 0, d, 2, []byte{byte(t >> 8)}) }},
		{"Data3", func(d uint32, t int) []byte { return dataMsg(d, t, []byte{1, 2, 3}) }},
		{"Data6", func(d uint32, t int) []byte { return dataMsg(d, t, []byte{2, 0, 9, 2, 65, 66}) }},
		{"Data2", func(d uint32, t int) []byte { return dataMsg(d, t, []byte{1, 2}) }},
	}
}

func runC04(d *drv, r *rand.Rand, thorough bool) {
	d.logStore = true
	alpha := c04Alphabet()
	doms := []uint32{0, 1}
	tids := []int{256, 257}
	type step struct {
		a   int
		dom uint32
		tid int
	}
	var steps []step
	for ai := range alpha {
		for _, dm := range doms {
			for _, t := range tids {
				steps = append(steps, step{ai, dm, t})
			}
		}
	}
	depth := 2
	if thorough {
		depth = 3
	}
	ms := []collector.DecodingMode{collector.DecodingModeStrict, collector.DecodingModeLenientKeepUnknown}
	// exhaustive: every history of length depth (first action restricted to domain 1 / id 256 by symmetry)
	var rec func(prefix []step)
	rec = func(prefix []step) {
		if len(prefix) == depth {
			for _, m := range ms {
				s := d.open(m, "exh")
				for _, st := range prefix {
					s.recv(alpha[st.a].f(st.dom, st.tid))
				}
			}
			return
		}
		for _, st := range steps {
			if len(prefix) == 0 && st.tid != 256 {
				continue
			}
			rec(append(prefix, st))
		}
	}
	rec(nil)
	// random long histories over 4 domains x 6 ids, incl. domains beyond 2^31
	n := 300
	if thorough {
		n = 3000
	}
	bigDoms := []uint32{0, 1, 0x80000001, 0xffffffff}
	for i := 0; i < n; i++ {
		s := d.open(modes[r.Intn(3)], "rnd")
		for j := 0; j < 6+r.Intn(20); j++ {
			a := alpha[r.Intn(len(alpha))]
			s.recv(a.f(bigDoms[r.Intn(4)], 256+r.Intn(6)))
		}
	}
	// thousands of refreshes and re-definitions of known keys, then the first template of another domain and data for it
	{
		s := d.open(collector.DecodingModeStrict, "long")
		d.logStore = false // (the store is looked at once, at the end)
		for i := 0; i < 5000; i++ {
			a := alpha[[]int{0, 0, 0, 1}[i%4]] // T1 three times, T2 once: refreshes and re-definitions
			s.recv(a.f(1, 256))
		}
		d.logStore = true
		s.recv(alpha[0].f(2, 300))
		s.recv(dataMsg(2, 300, []byte{1, 2, 3}))
		s.recv(dataMsg(1, 256, []byte{2, 0, 9}))
	}
	runC04Race(d, r, thorough)
}

// runC04Race: two sessions send the FIRST templates of one new observation domain at the same instant (different
// template ids, spin barrier): both are stored.  Thousands of attempts, because the window in which an
// installation could be lost is a few instructions wide.  Logged as two Recv events per attempt (they commute),
// the store snapshot on the second one, taken after both calls returned.
func runC04Race(d *drv, r *rand.Rand, thorough bool) {
	attempts := 8000
	if thorough {
		attempts = 80000
	}
	runtime.GOMAXPROCS(4)
	defer runtime.GOMAXPROCS(runtime.NumCPU())
	var s *sess
	var stopDrain chan struct{}
	for a := 0; a < attempts; a++ {
		if a%40 == 0 {
			if stopDrain != nil {
				close(stopDrain)
			}
			s = d.open(collector.DecodingModeStrict, "race")
			stopDrain = make(chan struct{})
			go func(cp *collector.CollectingProcess, stop chan struct{}) { // decodePacket hands every message to the consumer
				for {
					select {
					case <-cp.GetMsgChan():
					case <-stop:
						return
					}
				}
			}(s.c.CP, stopDrain)
		}
		dom := uint32(1000 + a)
		msgs := [2][]byte{tmplMsg(dom, 256, []absv.Spec{sU8, sU16}), tmplMsg(dom, 257, []absv.Spec{sU32})}
		base := int(s.c.CP.GetNumRecordsReceived())
		var ready atomic.Int32
		var wg sync.WaitGroup
		var out [2]*entities.Message
		var errs [2]error
		for g := 0; g < 2; g++ {
			wg.Add(1)
			go func(g int) {
				defer wg.Done()
				ready.Add(1)
				for ready.Load() < 2 { // spin: both enter the collector together
				}
				out[g], errs[g] = s.c.CP.VerifDecodePacket(msgs[g], s.c.Addr)
			}(g)
		}
		wg.Wait()
		total := int(s.c.CP.GetNumRecordsReceived())
		for g := 0; g < 2; g++ {
			d.evals++
			ev := vt.Ev{"e": "Recv", "bytes": vt.B(msgs[g]), "kind": "Err", "nmsg": base + (total-base)*(g+1)/2}
			if errs[g] == nil && out[g] != nil {
				tid, fields := coll.ProjectTemplate(out[g])
				ev["kind"], ev["tid"], ev["fields"] = "Tmpl", tid, fields
			}
			if g == 1 {
				st := make([]any, 0)
				for _, t := range s.c.CP.VerifTemplates() {
					fs := make([]absv.Field, len(t.IEs))
					for i := range t.IEs {
						fs[i] = absv.FieldOf(&t.IEs[i])
					}
					st = append(st, vt.Ev{"dom": vt.Limbs(t.ObsDomainID), "tid": int(t.TemplateID), "fields": fs})
				}
				ev["store"] = st
			}
			d.w.Emit(ev)
		}
	}
	if stopDrain != nil {
		close(stopDrain)
	}
	d.dist[uint64(attempts)] = true
}

// ------------------------------------------------------------------------------------------ C17

func runC17(d *drv, r *rand.Rand, thorough bool, custom []*entities.InfoElement) {
	known := []*entities.InfoElement{}
	for _, ie := range gen.AllRegistry() {
		if gen.Supported(ie) {
			known = append(known, ie)
		}
	}
	kFixed, _ := registry.GetInfoElement("sourceTransportPort", 0)
	kVar, _ := registry.GetInfoElement("sourcePodName", registry.AntreaEnterpriseID)
	type slot struct {
		spec absv.Spec
		typ  string
	}
	kinds := []func(r *rand.Rand) slot{
		func(*rand.Rand) slot { return slot{absv.SpecOf(kFixed), "unsigned16"} },
		func(*rand.Rand) slot { return slot{absv.SpecOf(kVar), "string"} },
		func(r *rand.Rand) slot { return slot{absv.Spec{ID: 900 + r.Intn(50), Len: r.Intn(9)}, "octetArray"} }, // unknown IANA fixed
		func(r *rand.Rand) slot {
			return slot{absv.Spec{ID: 1 + r.Intn(200), Len: 1 + r.Intn(8), Ent: 12345}, "octetArray"}
		}, // unknown enterprise fixed
		func(r *rand.Rand) slot {
			return slot{absv.Spec{ID: 950 + r.Intn(20), Len: 65535, Ent: uint32(r.Intn(2)) * 54321}, "octetArray"}
		}, // unknown variable
	}
	run := func(slots []slot, tag string) {
		specs := make([]absv.Spec, len(slots))
		for i, s := range slots {
			specs[i] = s.spec
		}
		tm := tmplMsg(9, 300, specs)
		// two records with values of the right shape
		var body []byte
		for k := 0; k < 2; k++ {
			for _, s := range slots {
				n := s.spec.Len
				if n == 65535 {
					n = []int{0, 1, 5, 254, 255, 300}[r.Intn(6)]
				}
				v := make([]int, n)
				for i := range v {
					v[i] = r.Intn(256)
				}
				body = append(body, absv.EncodeAbs(s.typ, s.spec.Len, v)...)
			}
		}
		dm := dataMsg(9, 300, body)
		for _, m := range modes {
			s := d.open(m, tag)
			s.recv(tm)
			s.recv(dm)
		}
	}
	// every shape over 3 slots x 5 kinds, two value draws each
	for a := 0; a < 5; a++ {
		for b := 0; b < 5; b++ {
			for c := 0; c < 5; c++ {
				for rep := 0; rep < 2; rep++ {
					run([]slot{kinds[a](r), kinds[b](r), kinds[c](r)}, "shape")
				}
			}
		}
	}
	// a template re-defined with its unknown elements at OTHER positions (or with its first unknown element), data
	// before and after: whatever the mode does with a definition, data is read with the definition in force
	for i := 0; i < 16; i++ {
		mkBody := func(sl []slot) []byte {
			var body []byte
			for _, x := range sl {
				n := x.spec.Len
				if n == 65535 {
					n = r.Intn(6)
				}
				v := make([]int, n)
				for j := range v {
					v[j] = r.Intn(256)
				}
				body = append(body, absv.EncodeAbs(x.typ, x.spec.Len, v)...)
			}
			return body
		}
		specsOf := func(sl []slot) []absv.Spec {
			out := make([]absv.Spec, len(sl))
			for j, x := range sl {
				out[j] = x.spec
			}
			return out
		}
		kf := slot{absv.SpecOf(kFixed), "unsigned16"}
		kv := slot{absv.SpecOf(kVar), "string"}
		k8 := slot{absv.Spec{ID: 4, Len: 1}, "unsigned8"}
		u1, u2 := kinds[2+r.Intn(3)](r), kinds[2+r.Intn(3)](r)
		var old, nw []slot
		switch i % 4 {
		case 0: // known only, then an unknown in the middle (same record length: data for the new definition could be read with the old one)
			old, nw = []slot{kf, k8, kf}, []slot{kf, {absv.Spec{ID: 900 + r.Intn(50), Len: 1}, "octetArray"}, kf}
		case 1: // the unknown element moves
			old, nw = []slot{u1, kf, k8, kv}, []slot{kf, k8, u1, kv}
		case 2: // unknown positions swap with known ones
			old, nw = []slot{kf, u1, k8, u2}, []slot{u2, kf, u1, k8}
		default: // the unknown elements go away
			old, nw = []slot{k8, u1, u2}, []slot{k8, kf, kv}
		}
		for _, m := range modes {
			s := d.open(m, "redef")
			s.recv(tmplMsg(9, 300, specsOf(old)))
			s.recv(dataMsg(9, 300, append(mkBody(old), mkBody(old)...)))
			s.recv(tmplMsg(9, 300, specsOf(nw)))
			s.recv(dataMsg(9, 300, append(mkBody(nw), mkBody(nw)...)))
		}
	}
	// unknown elements declared with long fixed lengths (around and beyond one byte's worth)
	for _, ln := range []int{254, 255, 256, 257, 300, 511, 512, 1000} {
		for _, ent := range []uint32{0, 12345} {
			unk := slot{absv.Spec{ID: 940 + ln%7, Len: ln, Ent: ent}, "octetArray"}
			run([]slot{{absv.SpecOf(kFixed), "unsigned16"}, unk, {absv.SpecOf(kVar), "string"}}, "longfixed")
			run([]slot{unk, unk, {absv.SpecOf(kFixed), "unsigned16"}}, "longfixed")
		}
	}
	// wide templates (65..80 fields): unknown elements beyond position 64
	for i := 0; i < 6; i++ {
		nf := 65 + r.Intn(16)
		slots := make([]slot, nf)
		for j := range slots {
			if j%9 == 8 || j == nf-1 || j == 64 {
				slots[j] = kinds[2+r.Intn(3)](r)
			} else {
				slots[j] = slot{absv.SpecOf(kFixed), "unsigned16"}
			}
		}
		run(slots, "wide")
	}
	// random templates of 1..20 fields with unknown elements at random positions
	n := 150
	if thorough {
		n = 2500
	}
	for i := 0; i < n; i++ {
		nf := 1 + r.Intn(20)
		slots := make([]slot, nf)
		for j := range slots {
			if r.Intn(3) == 0 {
				slots[j] = kinds[2+r.Intn(3)](r)
				if r.Intn(4) == 0 {
					slots[j].spec.Len = r.Intn(41)
				}
			} else {
				ie := known[r.Intn(len(known))]
				slots[j] = slot{absv.SpecOf(ie), absv.TypeName(ie.DataType)}
			}
		}
		run(slots, "rand")
	}
}

// ------------------------------------------------------------------------------------------ C03

func runC03(d *drv, r *rand.Rand, thorough bool, custom []*entities.InfoElement) {
	type tstate struct {
		name  string
		specs []absv.Spec
		modes []collector.DecodingMode
	}
	lenient := []collector.DecodingMode{collector.DecodingModeLenientKeepUnknown, collector.DecodingModeLenientDropUnknown}
	states := []tstate{
		{"u8", []absv.Spec{sU8}, modes},
		{"u16u32", []absv.Spec{sU16, sU32}, modes},
		{"str", []absv.Spec{sStr}, modes},
		{"oct3", []absv.Spec{sOc3}, modes},
		{"stru64", []absv.Spec{sStr, sU64}, modes},
		{"ip4ip4", []absv.Spec{sIP4, sIP4}, modes},
		{"zero", []absv.Spec{}, modes},
		{"unk0", []absv.Spec{{ID: 998, Len: 0}}, lenient},
		{"u8unkvar", []absv.Spec{sU8, {ID: 997, Len: 65535}}, lenient},
	}
	// (a) exhaustive small scope: all bodies over {0,1,2,255} up to length L
	L := 5
	if thorough {
		L = 7
	}
	alphabet := []byte{0, 1, 2, 255}
	var bodies [][]byte
	var gen func(cur []byte)
	gen = func(cur []byte) {
		bodies = append(bodies, append([]byte{}, cur...))
		if len(cur) == L {
			return
		}
		for _, a := range alphabet {
			gen(append(cur, a))
		}
	}
	gen(nil)
	for _, st := range states {
		for _, m := range st.modes {
			s := d.open(m, "exh-"+st.name)
			if k := s.recv(tmplMsg(3, 400, st.specs)); k != "Tmpl" {
				continue
			}
			for _, b := range bodies {
				if s.recv(dataMsg(3, 400, b)) == "Panic" {
					// a panic may leave the collector's lock state undefined: continue on a fresh process
					s = d.open(m, "exh-"+st.name)
					s.recv(tmplMsg(3, 400, st.specs))
				}
			}
		}
	}
	// (b) every truncation of valid messages
	valid := [][]byte{tmplMsg(3, 400, []absv.Spec{sU8, sStr, sOc3}), dataMsg(3, 400, []byte{7, 3, 65, 66, 67, 9, 9, 9})}
	for _, m := range modes {
		s := d.open(m, "trunc")
		s.recv(valid[0])
		for _, v := range valid {
			for cut := 0; cut <= len(v); cut++ {
				s.recv(v[:cut])
				s.recv(valid[0]) // restore the template (a cut template message may have invalidated it)
			}
		}
	}
	// (c) fuzz: random bytes, and mutations of valid template/data messages over the registry
	known := []*entities.InfoElement{}
	for _, ie := range append(gen0(), custom...) {
		known = append(known, ie)
	}
	n := 400
	if thorough {
		n = 8000
	}
	for i := 0; i < n; i++ {
		m := modes[r.Intn(3)]
		s := d.open(m, "fuzz")
		nf := r.Intn(8)
		ies := make([]*entities.InfoElement, nf)
		specs := make([]absv.Spec, nf)
		for j := range ies {
			ies[j] = known[r.Intn(len(known))]
			specs[j] = absv.SpecOf(ies[j])
			if r.Intn(6) == 0 { // unknown element
				specs[j] = absv.Spec{ID: 900 + r.Intn(99), Len: []int{0, 1, 3, 65535}[r.Intn(4)], Ent: uint32(r.Intn(2)) * 4242}
				ies[j] = entities.NewInfoElement("", uint16(specs[j].ID), entities.OctetArray, specs[j].Ent, uint16(specs[j].Len))
			}
		}
		tm := tmplMsg(5, 500, specs)
		var body []byte
		for k := 0; k < r.Intn(4); k++ {
			for _, ie := range ies {
				v := genAbs(r, ie)
				body = append(body, absv.EncodeAbs(absv.TypeName(ie.DataType), int(ie.Len), v)...)
			}
		}
		dm := dataMsg(5, 500, body)
		s.recv(mutate(r, tm))
		for k := 0; k < 3; k++ {
			s.recv(mutate(r, dm))
		}
		if r.Intn(4) == 0 {
			rb := make([]byte, r.Intn(80))
			r.Read(rb)
			if len(rb) > 1 && r.Intn(2) == 0 {
				rb[0], rb[1] = 0, 10
			}
			s.recv(rb)
		}
	}
}

func gen0() []*entities.InfoElement {
	out := []*entities.InfoElement{}
	for _, ie := range gen.AllRegistry() {
		if gen.Supported(ie) {
			out = append(out, ie)
		}
	}
	return out
}

func genAbs(r *rand.Rand, ie *entities.InfoElement) []int {
	return gen.Abs(r, ie, 300)
}

// mutate returns b unchanged (1/3) or with a truncation, extension, bit flip or length edit.
func mutate(r *rand.Rand, b []byte) []byte {
	c := append([]byte{}, b...)
	switch r.Intn(9) {
	case 0, 1, 2:
		return c
	case 3:
		return c[:r.Intn(len(c)+1)]
	case 4:
		ext := make([]byte, 1+r.Intn(12))
		r.Read(ext)
		return append(c, ext...)
	case 5:
		if len(c) > 0 {
			i := r.Intn(len(c))
			c[i] ^= 1 << uint(r.Intn(8))
		}
		return c
	case 6: // edit a byte in the set body
		if len(c) > 20 {
			i := 20 + r.Intn(len(c)-20)
			c[i] = []byte{0, 1, 254, 255}[r.Intn(4)]
		}
		return c
	case 7: // drop one byte
		if len(c) > 21 {
			i := 20 + r.Intn(len(c)-20)
			return append(c[:i], c[i+1:]...)
		}
		return c
	default: // length fields
		if len(c) >= 20 {
			c[2+r.Intn(2)] = byte(r.Intn(256))
			c[18+r.Intn(2)] = byte(r.Intn(256))
		}
		return c
	}
}
