//go:build verif

// c11: TCP framing. (A) every single and double cut point of short streams through the real
// connection handler on an in-memory connection (each harness write is one read boundary);
// (B) real loopback sockets with random multi-cuts, delays and several connections.
package main

import (
	"encoding/json"
	"flag"
	"fmt"
	"hash/fnv"
	"math/rand"
	"net"
	"os"
	"time"

	"github.com/vmware/go-ipfix/pkg/collector"
	"github.com/vmware/go-ipfix/pkg/entities"
	"github.com/vmware/go-ipfix/pkg/registry"

	"verif/harness/absv"
	"verif/harness/coll"
	"verif/harness/gen"
	"verif/harness/vt"
)

var (
	out   = flag.String("out", "trace.ndjson", "trace file")
	seed  = flag.Int64("seed", 1, "seed")
	tier  = flag.String("tier", "quick", "quick|thorough")
	regfn = flag.String("reg", "registry.json", "registry dump")
)

type addr struct{ s string }

func (a addr) Network() string { return "tcp" }
func (a addr) String() string  { return a.s }

// pipeConn gives the server end of a net.Pipe a host:port remote address.
type pipeConn struct {
	net.Conn
	remote addr
}

func (p pipeConn) RemoteAddr() net.Addr { return p.remote }

type conn struct {
	id     int
	client net.Conn
	done   chan struct{} // handler returned / collector closed the connection
	ended  bool
	closed bool // real connections: the client closed it itself (its own read returns at once, the collector may still be delivering)
}

type kept struct {
	m    *entities.Message
	c, i int
	proj string
}

type sys struct {
	shared bool // all connections use observation domain 1; connection c numbers its messages from 1000*(c-1)
	w      *vt.Writer
	cp     *collector.CollectingProcess
	conns  map[int]*conn
	real   bool
	kept   []kept // delivered messages, re-projected at the end of the run
}

func projString(m *entities.Message) string {
	if m.GetSet().GetSetType() == entities.Template {
		tid, fields := coll.ProjectTemplate(m)
		return fmt.Sprint(tid, fields)
	}
	recs, _, err := coll.ProjectData(m)
	return fmt.Sprint(recs, err)
}

// recheck: what the consumer was handed must still read the same once later messages have arrived.
func (s *sys) recheck() {
	for idx, k := range s.kept {
		s.w.Emit(vt.Ev{"e": "Recheck", "c": k.c, "n": idx + 1, "same": projString(k.m) == k.proj})
	}
	s.kept = nil
}

func (s *sys) logDeliver(m *entities.Message) {
	cid := int(m.GetObsDomainID())
	if s.shared {
		cid = 1 + int(m.GetSequenceNum())/1000
	}
	s.kept = append(s.kept, kept{m: m, c: cid, proj: projString(m)})
	ev := vt.Ev{"e": "Deliver", "dom": vt.Limbs(m.GetObsDomainID()), "seq": vt.Limbs(m.GetSequenceNum())}
	ev["c"] = cid
	if m.GetSet().GetSetType() == entities.Template {
		tid, fields := coll.ProjectTemplate(m)
		ev["kind"], ev["tid"], ev["fields"] = "Tmpl", tid, fields
	} else {
		recs, _, err := coll.ProjectData(m)
		if err != nil {
			ev["kind"] = "ProjErr"
		} else {
			ev["kind"], ev["recs"] = "Data", recs
			if len(m.GetSet().GetRecords()) > 0 {
				ev["tid"] = int(m.GetSet().GetRecords()[0].GetTemplateID())
			} else {
				ev["tid"] = -1
			}
		}
	}
	s.w.Emit(ev)
}

// pump logs everything that happens until stop fires.
func (s *sys) pump(stop <-chan error, idle time.Duration) {
	var timer <-chan time.Time
	if stop == nil {
		timer = time.After(idle)
	}
	for {
		// End events of any connection
		open := 0
		for _, c := range s.conns {
			select {
			case <-c.done:
			default:
				open++
			}
		}
		for _, c := range s.conns {
			select {
			case <-c.done:
				if !c.ended {
					if s.real && c.closed && int(s.cp.GetNumConnToCollector()) > open {
						// the client closed this connection itself: its End is the moment the collector's handler
						// is through with it (everything delivered), i.e. when only the still-open connections are registered
						continue
					}
					c.ended = true
					s.w.Emit(vt.Ev{"e": "End", "c": c.id})
				}
			default:
			}
		}
		select {
		case m := <-s.cp.GetMsgChan():
			s.logDeliver(m)
		case <-stop:
			return
		case <-timer:
			return
		case <-time.After(200 * time.Microsecond):
		}
	}
}

func (s *sys) write(c *conn, chunk []byte) {
	s.w.Emit(vt.Ev{"e": "Seg", "c": c.id, "chunk": vt.B(chunk)})
	wd := make(chan error, 1)
	go func() {
		c.client.SetWriteDeadline(time.Now().Add(5 * time.Second))
		_, err := c.client.Write(chunk)
		wd <- err
	}()
	s.pump(wd, 0)
}

func (s *sys) closeClient(c *conn) {
	s.w.Emit(vt.Ev{"e": "ClientClose", "c": c.id})
	c.closed = true
	c.client.Close()
}

// waitEnd waits until every connection has ended (or reports a leak).
func (s *sys) waitEnd() {
	defer s.recheck()
	deadline := time.Now().Add(5 * time.Second)
	for time.Now().Before(deadline) {
		all := true
		for _, c := range s.conns {
			if !c.ended {
				all = false
			}
		}
		if all {
			return
		}
		s.pump(nil, 2*time.Millisecond)
	}
	for _, c := range s.conns {
		if !c.ended {
			s.w.Emit(vt.Ev{"e": "NoEnd", "c": c.id})
		}
	}
}

func newPipeSys(w *vt.Writer, tag string, n int) *sys {
	cl, err := coll.New("tcp", collector.DecodingModeStrict, 0, nil)
	if err != nil {
		panic(err)
	}
	s := &sys{w: w, cp: cl.CP, conns: map[int]*conn{}}
	w.Reset(vt.Ev{"mode": "Strict", "tag": tag})
	for i := 1; i <= n; i++ {
		srv, cli := net.Pipe()
		c := &conn{id: i, client: cli, done: make(chan struct{})}
		s.conns[i] = c
		go func(i int) {
			defer close(c.done)
			s.cp.VerifHandleTCPConn(pipeConn{srv, addr{fmt.Sprintf("10.0.0.%d:4000", i)}})
		}(i)
	}
	return s
}

func newRealSys(w *vt.Writer, tag string, n int) *sys {
	cp, err := collector.InitCollectingProcess(collector.CollectorInput{Address: "127.0.0.1:0", Protocol: "tcp", MaxBufferSize: 65535})
	if err != nil {
		panic(err)
	}
	go cp.Start()
	for cp.GetAddress() == nil {
		time.Sleep(time.Millisecond)
	}
	s := &sys{w: w, cp: cp, conns: map[int]*conn{}, real: true}
	w.Reset(vt.Ev{"mode": "Strict", "tag": tag})
	for i := 1; i <= n; i++ {
		cli, err := net.Dial("tcp", cp.GetAddress().String())
		if err != nil {
			panic(err)
		}
		cli.(*net.TCPConn).SetNoDelay(true)
		c := &conn{id: i, client: cli, done: make(chan struct{})}
		s.conns[i] = c
		go func() { // the collector never writes: a read returns only when the connection is dropped
			buf := make([]byte, 1)
			cli.Read(buf)
			close(c.done)
		}()
	}
	for k := 0; int(cp.GetNumConnToCollector()) < n && k < 5000; k++ { // every handler registered before anything is judged by the count
		time.Sleep(time.Millisecond)
	}
	return s
}

// ---------------------------------------------------------------------------------------------

var (
	sU8  = absv.Spec{ID: 4, Len: 1}
	sU16 = absv.Spec{ID: 7, Len: 2}
	sStr = absv.Spec{ID: 82, Len: 65535}
	sOct = absv.Spec{ID: 313, Len: 65535} // ipHeaderPacketSection: a variable-length octet array
	sIP4 = absv.Spec{ID: 8, Len: 4}       // sourceIPv4Address
	sIP6 = absv.Spec{ID: 27, Len: 16}     // sourceIPv6Address
)

// stream builds the messages of connection c: a template and data messages; bad >= 0 replaces the
// message at that position by an undecodable one of the given flavour.
func stream(c int, ndata int, bad int, flavour int, r *rand.Rand) [][]byte {
	msgs := [][]byte{absv.Message(1, 0, uint32(c), 2, absv.TemplateBody(256, []absv.Spec{sU8, sStr, sU16, sOct, sIP4, sIP6}))}
	for i := 1; i <= ndata; i++ {
		var body []byte
		for k := 0; k < 1+r.Intn(2); k++ {
			n := r.Intn(6)
			str := make([]byte, n)
			for j := range str {
				str[j] = byte(65 + r.Intn(26))
			}
			body = append(body, byte(r.Intn(256)))
			body = append(body, absv.VarPrefix(n)...)
			body = append(body, str...)
			body = append(body, byte(r.Intn(256)), byte(r.Intn(256)))
			on := 1 + r.Intn(5)
			body = append(body, byte(on))
			for j := 0; j < on; j++ {
				body = append(body, byte(1+r.Intn(255)))
			}
			for j := 0; j < 20; j++ { // the two addresses
				body = append(body, byte(1+r.Intn(254)))
			}
		}
		msgs = append(msgs, absv.Message(2, uint32(i), uint32(c), 256, body))
	}
	if bad >= 0 && bad < len(msgs) {
		switch flavour {
		case 0: // wrong version
			b := append([]byte{}, msgs[bad]...)
			b[1] = 9
			msgs[bad] = b
		case 1: // data set for an unknown template
			msgs[bad] = absv.Message(2, 99, uint32(c), 999, []byte{1, 2, 3})
		case 2: // truncated record (length field consistent with the shorter message)
			msgs[bad] = absv.Message(2, 98, uint32(c), 256, []byte{7, 3, 65})
		case 3: // template with an unknown element (strict mode rejects)
			msgs[bad] = absv.Message(1, 97, uint32(c), 2, absv.TemplateBody(256, []absv.Spec{{ID: 999, Len: 2}}))
		}
	}
	return msgs
}

func concat(msgs [][]byte) []byte {
	var b []byte
	for _, m := range msgs {
		b = append(b, m...)
	}
	return b
}

func main() {
	flag.Parse()
	thorough := *tier == "thorough"
	registry.LoadRegistry()
	custom, _ := gen.RegisterCustom()
	all := append(gen.AllRegistry(), custom...)
	fs := make([]absv.Field, len(all))
	for i, ie := range all {
		fs[i] = absv.FieldOf(ie)
	}
	jb, _ := json.Marshal(fs)
	os.WriteFile(*regfn, jb, 0o644)
	w, err := vt.Open(*out)
	if err != nil {
		panic(err)
	}
	r := rand.New(rand.NewSource(*seed))
	dist := map[uint64]bool{}
	evals := 0
	runCuts := func(b []byte, cuts []int, tag string) {
		h := fnv.New64a()
		h.Write(b)
		fmt.Fprint(h, cuts)
		dist[h.Sum64()] = true
		evals++
		s := newPipeSys(w, tag, 1)
		c := s.conns[1]
		prev := 0
		for _, cut := range append(cuts, len(b)) {
			if cut > prev {
				s.write(c, b[prev:cut])
				prev = cut
			}
			if c.ended {
				break
			}
		}
		if !c.ended {
			s.closeClient(c)
		}
		s.waitEnd()
		c.client.Close()
	}
	// (A) exhaustive single cuts, double cuts (all in thorough, sampled in quick), invalid message anywhere
	for bad := -1; bad <= 2; bad++ {
		flavours := []int{0}
		if bad >= 0 {
			flavours = []int{0, 1, 2, 3}
		}
		for _, fl := range flavours {
			b := concat(stream(1, 2, bad, fl, rand.New(rand.NewSource(7))))
			for i := 0; i <= len(b); i++ {
				runCuts(b, []int{i}, "cut1")
			}
			nd := 40
			if thorough {
				nd = 600
			}
			for k := 0; k < nd; k++ {
				i := r.Intn(len(b) + 1)
				j := i + r.Intn(len(b)+1-i)
				runCuts(b, []int{i, j}, "cut2")
			}
		}
	}
	if thorough { // every double cut of the valid stream
		b := concat(stream(1, 2, -1, 0, rand.New(rand.NewSource(7))))
		for i := 0; i <= len(b); i++ {
			for j := i; j <= len(b); j++ {
				runCuts(b, []int{i, j}, "cut2all")
			}
		}
	}
	// a long pause INSIDE a message (after the length prefix, inside the header, inside the body): the
	// stream is still the same stream
	{
		b := concat(stream(1, 2, -1, 0, rand.New(rand.NewSource(11))))
		first := len(stream(1, 2, -1, 0, rand.New(rand.NewSource(11)))[0])
		for _, cut := range []int{first + 5, first + 18, first + 24} {
			evals++
			s := newPipeSys(w, "slowcut", 1)
			c := s.conns[1]
			s.write(c, b[:cut])
			s.pump(nil, 450*time.Millisecond)
			if !c.ended {
				s.write(c, b[cut:])
			}
			if !c.ended {
				s.closeClient(c)
			}
			s.waitEnd()
			c.client.Close()
		}
	}
	// byte-by-byte, and messages whose length field lies (shorter / longer than the message)
	b := concat(stream(1, 3, -1, 0, rand.New(rand.NewSource(8))))
	cuts := []int{}
	for i := 1; i < len(b); i++ {
		cuts = append(cuts, i)
	}
	runCuts(b, cuts, "bytewise")
	for _, delta := range []int{-20, -17, -5, -1, 1, 7} {
		ms := stream(1, 2, -1, 0, rand.New(rand.NewSource(9)))
		m := append([]byte{}, ms[1]...)
		l := len(m) + delta
		m[2], m[3] = byte(l>>8), byte(l)
		ms[1] = m
		runCuts(concat(ms), []int{r.Intn(30)}, "lenlie")
	}
	for _, l := range []int{0, 1, 3, 4, 15} { // absurdly small length fields
		m := absv.Message(1, 0, 1, 2, absv.TemplateBody(256, []absv.Spec{sU8}))
		m[2], m[3] = 0, byte(l)
		runCuts(m, []int{2}, "tiny")
	}
	// messages longer than the reader's buffer (4096 bytes): whole, in 1000-byte pieces, and cut at the buffer size
	for _, n := range []int{4040, 4096 - 16 - 4 - 9 - 20, 4200, 20000, 65535 - 16 - 4 - 9 - 20} {
		ms := stream(1, 1, -1, 0, rand.New(rand.NewSource(12)))
		str := make([]byte, n)
		for j := range str {
			str[j] = byte(65 + j%26)
		}
		body := append([]byte{7}, absv.VarPrefix(n)...)
		body = append(body, str...)
		body = append(body, 1, 2, 1, 9)
		body = append(body, 10, 0, 0, 1, 0x20, 1, 0xd, 0xb8, 0, 0, 0, 0, 0, 0, 0, 0, 0, 0, 0, 1)
		ms = append(ms, absv.Message(2, 2, 1, 256, body))
		ms = append(ms, stream(1, 1, -1, 0, rand.New(rand.NewSource(13)))[1])
		b := concat(ms)
		runCuts(b, []int{len(ms[0]) + len(ms[1])}, "long")
		cuts := []int{}
		for x := 1000; x < len(b); x += 1000 {
			cuts = append(cuts, x)
		}
		runCuts(b, cuts, "long1000")
		runCuts(b, []int{len(ms[0]) + len(ms[1]) + 4096}, "long4096")
	}
	// two connections exporting for the SAME observation domain: an undecodable message closes one of them,
	// the other one (and the template both use) is unaffected
	for _, fl := range []int{0, 1, 2, 3} {
		evals++
		s := newPipeSys(w, "shared", 2)
		s.shared = true
		a, b := s.conns[1], s.conns[2]
		mk := func(c int, ms [][]byte) [][]byte { // re-stamp: domain 1, sequence numbers from 1000*(c-1)
			out := make([][]byte, len(ms))
			for i, m := range ms {
				m = append([]byte{}, m...)
				sq := uint32(1000*(c-1) + i)
				m[8], m[9], m[10], m[11] = byte(sq>>24), byte(sq>>16), byte(sq>>8), byte(sq)
				m[12], m[13], m[14], m[15] = 0, 0, 0, 1
				out[i] = m
			}
			return out
		}
		ma := mk(1, stream(1, 3, -1, 0, rand.New(rand.NewSource(21))))
		mb := mk(2, stream(1, 3, 2, fl, rand.New(rand.NewSource(21)))) // same template; its third message is undecodable
		s.write(b, mb[0])
		s.write(b, mb[1])
		s.write(a, ma[0])
		s.write(a, ma[1])
		s.write(b, mb[2]) // closes b
		s.pump(nil, 20*time.Millisecond)
		if !a.ended {
			s.write(a, ma[2])
		}
		if !a.ended {
			s.write(a, ma[3])
		}
		if !a.ended {
			s.closeClient(a)
		}
		if !b.ended {
			s.closeClient(b)
		}
		s.waitEnd()
		a.client.Close()
		b.client.Close()
	}
	// (B) real loopback sockets: several connections, random multi-cuts, small delays, long streams
	nB := 12
	if thorough {
		nB = 120
	}
	for i := 0; i < nB; i++ {
		evals++
		nc := 1 + r.Intn(4)
		s := newRealSys(w, "real", nc)
		type cs struct {
			b   []byte
			pos int
		}
		streams := map[int]*cs{}
		for c := 1; c <= nc; c++ {
			bad := -1
			if r.Intn(3) == 0 {
				bad = r.Intn(12)
			}
			streams[c] = &cs{b: concat(stream(c, 5+r.Intn(40), bad, r.Intn(4), r))}
		}
		closed := map[int]bool{}
		for {
			cands := []int{}
			for c := 1; c <= nc; c++ {
				if !closed[c] && !s.conns[c].ended {
					cands = append(cands, c)
				}
			}
			if len(cands) == 0 {
				break
			}
			c := cands[r.Intn(len(cands))]
			st, cn := streams[c], s.conns[c]
			n := 1 + r.Intn(60)
			if r.Intn(10) == 0 {
				n = 1 + r.Intn(600)
			}
			if st.pos+n > len(st.b) {
				n = len(st.b) - st.pos
			}
			if n > 0 {
				s.write(cn, st.b[st.pos:st.pos+n])
				st.pos += n
			}
			if r.Intn(8) == 0 {
				s.pump(nil, time.Duration(r.Intn(2000))*time.Microsecond)
			}
			if st.pos >= len(st.b) && !cn.ended {
				s.pump(nil, 3*time.Millisecond)
				s.closeClient(cn)
				closed[c] = true
			}
		}
		s.waitEnd()
		s.cp.Stop()
		for _, c := range s.conns {
			c.client.Close()
		}
	}
	w.Close()
	vt.PrintSummary(vt.Summary{Events: w.Events(), Traces: w.Traces(), Evaluations: evals, Distinct: len(dist) + nB})
}
