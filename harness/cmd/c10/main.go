//go:build verif

// c10: UDP template lifetime. Replays schedules (from TLC's state graph, or random) on a real
// collector with a harness clock: timers fire when the schedule says, the expiry callback's clock
// read blocks in the harness until CbRead / CbRun.
package main

import (
	"bufio"
	"encoding/json"
	"flag"
	"fmt"
	"hash/fnv"
	"math/rand"
	"os"
	"strings"
	"sync"
	"time"

	"github.com/vmware/go-ipfix/pkg/collector"
	"github.com/vmware/go-ipfix/pkg/registry"

	"verif/harness/absv"
	"verif/harness/coll"
	"verif/harness/vt"
)

var (
	out   = flag.String("out", "trace.ndjson", "trace file")
	seed  = flag.Int64("seed", 1, "seed")
	tier  = flag.String("tier", "quick", "quick|thorough")
	sched = flag.String("sched", "", "schedules (jsonl) from TLC's state graph")
)

const unit = 500 * time.Millisecond // half a second: the template lifetime is 1 s = 2 units, so instants that differ by one unit can share a wall-clock second
const ttlUnits = 2

var epoch = time.Unix(1700000000, 0)

// ------------------------------------------------------------------------------------- clock

type htimer struct {
	c        *hclock
	id       int
	f        func()
	armed    bool
	deadline time.Time
}

func (t *htimer) Stop() bool {
	t.c.mu.Lock()
	defer t.c.mu.Unlock()
	was := t.armed
	t.armed = false
	return was
}

func (t *htimer) Reset(d time.Duration) bool {
	t.c.mu.Lock()
	defer t.c.mu.Unlock()
	was := t.armed
	t.armed = true
	t.deadline = t.c.now.Add(d)
	return was
}

type nowReq struct{ ch chan time.Time }

type hclock struct {
	mu       sync.Mutex
	now      time.Time
	timers   []*htimer
	inDriver bool         // a driver-initiated decode is in progress: Now() answers at once
	pending  chan *nowReq // callback goroutines hand their clock reads to the driver
}

func (c *hclock) Now() time.Time {
	c.mu.Lock()
	if c.inDriver {
		n := c.now
		c.mu.Unlock()
		return n
	}
	c.mu.Unlock()
	r := &nowReq{ch: make(chan time.Time, 1)}
	c.pending <- r
	return <-r.ch
}

func (c *hclock) AfterFunc(d time.Duration, f func()) collector.VerifTimer {
	c.mu.Lock()
	defer c.mu.Unlock()
	t := &htimer{c: c, id: len(c.timers) + 1, f: f, armed: true, deadline: c.now.Add(d)}
	c.timers = append(c.timers, t)
	return t
}

// ------------------------------------------------------------------------------------ driver

type cb struct {
	req  *nowReq // nil when the callback never read the clock
	done chan struct{}
	seen time.Time
	read bool
}

type sys struct {
	w    *vt.Writer
	clk  *hclock
	c    *coll.C
	cbs  []*cb
	keys map[string][2]int // key -> (domain, template id)
}

func newSys(w *vt.Writer, tag string) *sys {
	clk := &hclock{now: epoch, pending: make(chan *nowReq)}
	c, err := coll.New("udp", collector.DecodingModeStrict, uint32(time.Duration(ttlUnits)*unit/time.Second), clk)
	if err != nil {
		panic(err)
	}
	s := &sys{w: w, clk: clk, c: c, keys: map[string][2]int{}}
	for i := 0; i < 12; i++ {
		s.keys[fmt.Sprintf("k%d", i+1)] = [2]int{1 + i/3, 256 + i%3}
	}
	w.Reset(vt.Ev{"tag": tag, "ttl": ttlUnits})
	return s
}

func units(t time.Time) int { return int(t.Sub(epoch) / unit) }

func (s *sys) decode(b []byte) string {
	s.clk.mu.Lock()
	s.clk.inDriver = true
	s.clk.mu.Unlock()
	o := s.c.Decode(b)
	s.clk.mu.Lock()
	s.clk.inDriver = false
	s.clk.mu.Unlock()
	return o.Kind
}

var versions = map[string][]absv.Spec{
	"v1": {{ID: 4, Len: 1}, {ID: 7, Len: 2}},
	"v2": {{ID: 7, Len: 2}, {ID: 4, Len: 1}, {ID: 4, Len: 1}},
}

func (s *sys) obs(ev vt.Ev) {
	ev["now"] = units(s.clk.now)
	st := make([]any, 0)
	for _, t := range s.c.CP.VerifTemplates() {
		k := ""
		for name, dt := range s.keys {
			if uint32(dt[0]) == t.ObsDomainID && uint16(dt[1]) == t.TemplateID {
				k = name
			}
		}
		ver := "v1"
		if len(t.IEs) == 3 {
			ver = "v2"
		}
		obj := -1
		if ht, ok := t.Timer.(*htimer); ok && ht != nil {
			obj = ht.id
		}
		st = append(st, vt.Ev{"k": k, "ver": ver, "expiry": units(t.ExpiryTime), "obj": obj})
	}
	ev["store"] = st
	s.clk.mu.Lock()
	tm := make([]any, 0)
	for _, t := range s.clk.timers {
		tm = append(tm, vt.Ev{"armed": t.armed, "deadline": units(t.deadline)})
	}
	s.clk.mu.Unlock()
	ev["timers"] = tm
	ev["inflight"] = len(s.cbs)
	s.w.Emit(ev)
}

// step executes one schedule action; returns false when the action is not executable on the real
// system (e.g. Fire of a timer that is not armed), which ends the schedule.
func (s *sys) step(a string, args []any) bool {
	a = strings.TrimPrefix(a, "A")
	str := func(i int) string { return args[i].(string) }
	num := func(i int) int { return int(args[i].(float64)) }
	switch a {
	case "Template":
		k := s.keys[str(0)]
		kind := s.decode(absv.Message(1, 0, uint32(k[0]), 2, absv.TemplateBody(k[1], versions[str(1)])))
		s.obs(vt.Ev{"e": "Template", "k": str(0), "v": str(1), "ok": kind == "Tmpl"})
	case "BadTemplate":
		k := s.keys[str(0)]
		b := absv.TemplateBody(k[1], versions["v2"])
		kind := s.decode(absv.Message(1, 0, uint32(k[0]), 2, b[:len(b)-3]))
		s.obs(vt.Ev{"e": "BadTemplate", "k": str(0), "ok": kind == "Tmpl"})
	case "Data":
		k := s.keys[str(0)]
		kind := s.decode(absv.Message(1, 0, uint32(k[0]), k[1], []byte{}))
		s.obs(vt.Ev{"e": "Data", "k": str(0), "accepted": kind == "Data"})
	case "Tick":
		s.clk.mu.Lock()
		s.clk.now = s.clk.now.Add(unit)
		s.clk.mu.Unlock()
		s.obs(vt.Ev{"e": "Tick"})
	case "Fire":
		o := num(0)
		s.clk.mu.Lock()
		if o < 1 || o > len(s.clk.timers) || !s.clk.timers[o-1].armed {
			s.clk.mu.Unlock()
			return false
		}
		t := s.clk.timers[o-1]
		t.armed = false
		s.clk.mu.Unlock()
		c := &cb{done: make(chan struct{})}
		go func() {
			defer close(c.done)
			t.f()
		}()
		// wait until the callback asks for the time (it is then parked in the harness) or ends
		select {
		case r := <-s.clk.pending:
			c.req = r
			s.cbs = append(s.cbs, c)
			s.obs(vt.Ev{"e": "Fire", "o": o})
		case <-c.done:
			// the callback ran to completion without reading the clock: there is no such step
			s.obs(vt.Ev{"e": "FireRanToCompletion", "o": o})
		case <-time.After(5 * time.Second):
			s.obs(vt.Ev{"e": "Hang", "o": o})
		}
	case "CbRead":
		i := num(0)
		if i < 1 || i > len(s.cbs) || s.cbs[i-1].read {
			return false
		}
		s.cbs[i-1].read = true
		s.cbs[i-1].seen = s.clk.now
		s.obs(vt.Ev{"e": "CbRead", "i": i})
	case "CbRun":
		i := num(0)
		if i < 1 || i > len(s.cbs) || !s.cbs[i-1].read {
			return false
		}
		c := s.cbs[i-1]
		c.req.ch <- c.seen
		select {
		case <-c.done:
		case r := <-s.clk.pending: // a second clock read by the same callback: answer with the same value
			r.ch <- c.seen
			<-c.done
		case <-time.After(5 * time.Second):
			s.obs(vt.Ev{"e": "Hang", "i": i})
			return false
		}
		s.cbs = append(s.cbs[:i-1], s.cbs[i:]...)
		s.obs(vt.Ev{"e": "CbRun", "i": i})
	default:
		panic("unknown action " + a)
	}
	return true
}

// finishCallbacks releases parked callbacks so that goroutines do not pile up.
func (s *sys) finishCallbacks() {
	for _, c := range s.cbs {
		if !c.read {
			c.seen = s.clk.now
		}
		c.req.ch <- c.seen
		select {
		case <-c.done:
		case <-time.After(time.Second):
		}
	}
	s.cbs = nil
}

// realTime drives a collector that uses the real clock: refreshes, invalidations and data sets at
// random instants over ~4 s; TLC checks acceptance against the lifetime with 600 ms of slack.
func realTime(w *vt.Writer, r *rand.Rand) int {
	c, err := coll.New("udp", collector.DecodingModeStrict, 1, nil)
	if err != nil {
		panic(err)
	}
	w.Reset(vt.Ev{"tag": "realtime", "ttl": 1})
	t0 := time.Now()
	ms := func() int { return int(time.Since(t0) / time.Millisecond) }
	keys := map[string][2]int{"k1": {1, 256}, "k2": {1, 257}, "k3": {2, 256}}
	names := []string{"k1", "k2", "k3"}
	n := 0
	for ms() < 4600 {
		n++
		k := names[r.Intn(3)]
		dt := keys[k]
		switch x := r.Intn(10); {
		case x < 2:
			o := c.Decode(absv.Message(1, 0, uint32(dt[0]), 2, absv.TemplateBody(dt[1], versions["v1"])))
			w.Emit(vt.Ev{"e": "RTemplate", "k": k, "ok": o.Kind == "Tmpl", "ms": ms()})
		case x < 3:
			b := absv.TemplateBody(dt[1], versions["v2"])
			o := c.Decode(absv.Message(1, 0, uint32(dt[0]), 2, b[:len(b)-3]))
			w.Emit(vt.Ev{"e": "RBadTemplate", "k": k, "ok": o.Kind == "Tmpl", "ms": ms()})
		default:
			m0 := ms()
			o := c.Decode(absv.Message(1, 0, uint32(dt[0]), dt[1], []byte{}))
			w.Emit(vt.Ev{"e": "RData", "k": k, "accepted": o.Kind == "Data", "ms0": m0, "ms1": ms()})
		}
		time.Sleep(time.Duration(20+r.Intn(160)) * time.Millisecond)
	}
	return n
}

type action struct {
	A    string `json:"a"`
	Args []any  `json:"args"`
}

func main() {
	flag.Parse()
	thorough := *tier == "thorough"
	registry.LoadRegistry()
	w, err := vt.Open(*out)
	if err != nil {
		panic(err)
	}
	dist := map[uint64]bool{}
	evals := 0
	run := func(acts []action, tag string) {
		h := fnv.New64a()
		for _, a := range acts {
			fmt.Fprint(h, a.A, a.Args)
		}
		dist[h.Sum64()] = true
		s := newSys(w, tag)
		for _, a := range acts {
			evals++
			if !s.step(a.A, a.Args) {
				break
			}
		}
		s.finishCallbacks()
	}
	if *sched != "" {
		f, err := os.Open(*sched)
		if err != nil {
			panic(err)
		}
		sc := bufio.NewScanner(f)
		sc.Buffer(make([]byte, 1<<20), 1<<26)
		for sc.Scan() {
			var acts []action
			if err := json.Unmarshal(sc.Bytes(), &acts); err != nil {
				panic(err)
			}
			run(acts, "graph")
		}
		f.Close()
	}
	// engine B: random schedules over 12 keys (4 domains x 3 ids), steered towards the races
	r := rand.New(rand.NewSource(*seed))
	n := 300
	if thorough {
		n = 4000
	}
	for i := 0; i < n; i++ {
		s := newSys(w, "rnd")
		nk := 1 + r.Intn(4)
		steps := 10 + r.Intn(40)
		for j := 0; j < steps; j++ {
			evals++
			k := fmt.Sprintf("k%d", 1+r.Intn(nk)*3%12)
			var ok bool
			switch x := r.Intn(20); {
			case x < 5:
				ok = s.step("Template", []any{k, []string{"v1", "v2"}[r.Intn(2)]})
			case x < 6:
				ok = s.step("BadTemplate", []any{k})
			case x < 8:
				ok = s.step("Data", []any{k})
			case x < 12:
				ok = s.step("Tick", nil)
			case x < 15:
				// fire a due timer if there is one
				due := []int{}
				s.clk.mu.Lock()
				for _, t := range s.clk.timers {
					if t.armed && !s.clk.now.Before(t.deadline) {
						due = append(due, t.id)
					}
				}
				s.clk.mu.Unlock()
				if len(due) > 0 && len(s.cbs) < 4 {
					ok = s.step("Fire", []any{float64(due[r.Intn(len(due))])})
				} else {
					ok = s.step("Tick", nil)
				}
			case x < 17:
				if len(s.cbs) > 0 {
					i := 1 + r.Intn(len(s.cbs))
					if !s.cbs[i-1].read {
						ok = s.step("CbRead", []any{float64(i)})
					} else {
						ok = s.step("CbRun", []any{float64(i)})
					}
				} else {
					ok = true
				}
			default:
				if len(s.cbs) > 0 {
					i := 1 + r.Intn(len(s.cbs))
					if s.cbs[i-1].read {
						ok = s.step("CbRun", []any{float64(i)})
					} else {
						ok = s.step("CbRead", []any{float64(i)})
					}
				} else {
					ok = true
				}
			}
			_ = ok
		}
		s.finishCallbacks()
	}
	// engine B': the REAL clock (time.AfterFunc), lifetime 1 s, wall-clock timestamps
	nrt := 2
	if thorough {
		nrt = 8
	}
	for i := 0; i < nrt; i++ {
		evals += realTime(w, r)
	}
	w.Close()
	vt.PrintSummary(vt.Summary{Events: w.Events(), Traces: w.Traces(), Evaluations: evals, Distinct: len(dist) + n})
}
