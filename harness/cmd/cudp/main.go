//go:build verif

// cudp: the UDP collector's per-source client goroutines with a shortened idle timeout (see spec/UdpIdle.tla).
// Built with a -overlay copy of pkg/collector/udp.go in which the 1800 s constant is the variable VerifUDPIdle.
package main

import (
	"flag"
	"fmt"
	"math/rand"
	"net"
	"os"
	"runtime/pprof"
	"strings"
	"sync"
	"sync/atomic"
	"time"

	"github.com/vmware/go-ipfix/pkg/collector"
	"github.com/vmware/go-ipfix/pkg/registry"

	"verif/harness/absv"
	"verif/harness/vt"
)

var (
	out  = flag.String("out", "trace.ndjson", "trace file")
	seed = flag.Int64("seed", 1, "seed")
	tier = flag.String("tier", "quick", "quick|thorough")
)

const (
	idle  = 600 * time.Millisecond
	slack = 250 * time.Millisecond
)

func collectorGoroutines() int {
	var sb strings.Builder
	pprof.Lookup("goroutine").WriteTo(&sb, 2)
	n := 0
	for _, g := range strings.Split(sb.String(), "\n\n") {
		if strings.Contains(g, "go-ipfix/pkg/collector.") {
			n++
		}
	}
	return n
}

type source struct {
	id       int
	conn     net.Conn
	next     int
	lastSend time.Time
	gray     bool
}

type run struct {
	w           *vt.Writer
	cp          *collector.CollectingProcess
	mu          sync.Mutex
	delivered   map[[2]int]bool
	lastDeliver map[int]time.Time
	stopCons    chan struct{}
	consDone    chan struct{}
	lost        atomic.Int64
}

func (r *run) send(s *source) int {
	s.next++
	i := s.next
	msg := absv.Message(uint32(time.Now().Unix()), uint32(i), uint32(s.id), 2, absv.TemplateBody(256, []absv.Spec{{ID: 4, Len: 1}}))
	r.w.Emit(vt.Ev{"e": "Send", "s": s.id, "i": i})
	s.conn.Write(msg)
	s.lastSend = time.Now()
	return i
}

// await a non-gray datagram: it must be delivered (5 s is far beyond any scheduling delay)
func (r *run) await(s *source, i int) {
	for t0 := time.Now(); time.Since(t0) < 5*time.Second && r.lost.Load() == 0; time.Sleep(200 * time.Microsecond) {
		r.mu.Lock()
		ok := r.delivered[[2]int{s.id, i}]
		r.mu.Unlock()
		if ok {
			return
		}
	}
	if r.lost.Load() > 0 {
		return
	}
	// not delivered: a stuck reader / dead client is persistent, a datagram dropped by the kernel is not.
	// Three probes from the same source decide; a transient loss is an environment problem (exit 3), never a verdict.
	for p := 0; p < 3; p++ {
		j := r.send(s)
		for t0 := time.Now(); time.Since(t0) < 2*time.Second; time.Sleep(time.Millisecond) {
			r.mu.Lock()
			ok := r.delivered[[2]int{s.id, j}]
			r.mu.Unlock()
			if ok {
				fmt.Fprintf(os.Stderr, "cudp: datagram %d of source %d was not delivered but a later probe was: dropped by the environment\n", i, s.id)
				os.Exit(3)
			}
		}
	}
	r.lost.Add(1) // one is enough for a verdict: the following ones are not waited for
	r.w.Emit(vt.Ev{"e": "Lost", "s": s.id, "i": i})
}

// quiet waits until the source's client has certainly left, then logs the connection count
func (r *run) quiet(s *source, expect func() int) {
	time.Sleep(time.Until(s.lastSend.Add(idle + slack)))
	n := int(r.cp.GetNumConnToCollector())
	for t0 := time.Now(); n > expect() && time.Since(t0) < 5*time.Second; time.Sleep(5 * time.Millisecond) {
		n = int(r.cp.GetNumConnToCollector())
	}
	time.Sleep(20 * time.Millisecond) // a delivery of the last gray datagram, if any, is logged before Quiet
	n = int(r.cp.GetNumConnToCollector())
	s.gray = false
	r.w.Emit(vt.Ev{"e": "Quiet", "s": s.id, "n": n})
}

func main() {
	flag.Parse()
	registry.LoadRegistry()
	collector.VerifUDPIdle = idle
	w, err := vt.Open(*out)
	if err != nil {
		panic(err)
	}
	rr := rand.New(rand.NewSource(*seed))
	rounds := 3
	if *tier == "thorough" {
		rounds = 12
	}
	evals := 0
	for round := 0; round < rounds; round++ {
		cp, err := collector.InitCollectingProcess(collector.CollectorInput{Address: "127.0.0.1:0", Protocol: "udp", MaxBufferSize: 65535})
		if err != nil {
			panic(err)
		}
		go cp.Start()
		for cp.GetAddress() == nil {
			time.Sleep(200 * time.Microsecond)
		}
		r := &run{w: w, cp: cp, delivered: map[[2]int]bool{}, lastDeliver: map[int]time.Time{}, stopCons: make(chan struct{}), consDone: make(chan struct{})}
		w.Reset(vt.Ev{"round": round})
		go func() {
			defer close(r.consDone)
			for {
				select {
				case m := <-cp.GetMsgChan():
					s, i := int(m.GetObsDomainID()), int(m.GetSequenceNum())
					r.mu.Lock()
					r.w.Emit(vt.Ev{"e": "Deliver", "s": s, "i": i})
					r.delivered[[2]int{s, i}] = true
					r.lastDeliver[s] = time.Now()
					r.mu.Unlock()
				case <-r.stopCons:
					return
				}
			}
		}()
		nsrc := 2 + rr.Intn(3)
		srcs := make([]*source, nsrc)
		for k := range srcs {
			c, err := net.Dial("udp", cp.GetAddress().String())
			if err != nil {
				panic(err)
			}
			srcs[k] = &source{id: k + 1, conn: c}
		}
		liveSet := map[int]bool{}
		live := func() int { return len(liveSet) }
		// phase 1: every source active
		for k := 0; k < 3; k++ {
			for _, s := range srcs {
				r.await(s, r.send(s))
				liveSet[s.id] = true
				evals++
			}
		}
		w.Emit(vt.Ev{"e": "Conns", "n": int(cp.GetNumConnToCollector())})
		// phase 2: source 1 goes idle and races with its client's exit; the others stay active all along
		// (the main loop below keeps them well within the idle time)
		victim := srcs[0]
		keep := func() {
			for _, s := range srcs[1:] {
				r.await(s, r.send(s))
				evals++
			}
		}
		for cyc := 0; cyc < 2; cyc++ {
			for time.Since(victim.lastSend) < idle-slack {
				keep()
				time.Sleep(40 * time.Millisecond)
			}
			victim.gray = true
			w.Emit(vt.Ev{"e": "Gray", "s": victim.id})
			// gray sends around the expected exit instant (either outcome), the others keep being served
			at := victim.lastSend.Add(idle - 30*time.Millisecond)
			for time.Now().Before(at) {
				keep()
				time.Sleep(time.Duration(1+rr.Intn(30)) * time.Millisecond)
			}
			// undecodable datagrams do not re-arm the idle ticker: a dense burst of them across the exit instant
			// keeps the socket reader at the hand-off while the client goroutine leaves
			bad := absv.Message(uint32(time.Now().Unix()), 0, uint32(victim.id), 999, []byte{1, 2, 3})
			nbad := 0
			r.mu.Lock()
			exit := r.lastDeliver[victim.id].Add(idle) // the ticker was re-armed when the victim's last datagram was decoded
			r.mu.Unlock()
			time.Sleep(time.Until(exit.Add(-3 * time.Millisecond)))
			for end := exit.Add(5 * time.Millisecond); time.Now().Before(end); nbad++ {
				victim.conn.Write(bad) // as fast as possible for 8 ms: what overflows the socket buffer is only more of the same
			}
			time.Sleep(60 * time.Millisecond) // the backlog drains before anything that must not be lost is written
			w.Emit(vt.Ev{"e": "SendBad", "s": victim.id, "n": nbad})
			nb := 1 + rr.Intn(3)
			for b := 0; b < nb; b++ {
				r.send(victim)
				evals++
				time.Sleep(time.Duration(rr.Intn(1500)) * time.Microsecond)
			}
			graySent := time.Now()
			// until the victim's (possibly fresh) client has certainly left
			delete(liveSet, victim.id)
			for time.Since(graySent) < idle+slack {
				keep()
				time.Sleep(40 * time.Millisecond)
			}
			r.quiet(victim, live)
			// back: served again by a fresh client
			r.await(victim, r.send(victim))
			liveSet[victim.id] = true
			evals++
			keep()
			w.Emit(vt.Ev{"e": "Conns", "n": int(cp.GetNumConnToCollector())})
		}
		// phase 3: Stop with clients registered
		w.Emit(vt.Ev{"e": "Stop"})
		stopped := make(chan struct{})
		go func() { cp.Stop(); close(stopped) }()
		select {
		case <-stopped:
		case <-time.After(10 * time.Second):
			w.Emit(vt.Ev{"e": "Stuck", "what": "Stop did not return within 10 s"})
		}
		leaked := 0
		for k := 0; k < 100; k++ {
			if leaked = collectorGoroutines(); leaked == 0 {
				break
			}
			time.Sleep(10 * time.Millisecond)
		}
		close(r.stopCons)
		<-r.consDone
		w.Emit(vt.Ev{"e": "End", "leaked": leaked})
		for _, s := range srcs {
			s.conn.Close()
		}
	}
	w.Close()
	fmt.Println()
	vt.PrintSummary(vt.Summary{Events: w.Events(), Traces: w.Traces(), Evaluations: evals, Distinct: evals})
}
