//go:build verif

// poolstop: reproduction attempt for the Stop deadlock that WorkerPool.tla predicts (not a listed property).
package main

import (
	"fmt"
	"time"

	"github.com/vmware/go-ipfix/pkg/registry"

	"verif/harness/agg"
)

func main() {
	registry.LoadRegistry()
	hung := 0
	for i := 0; i < 200; i++ {
		p := agg.New(2, 3, 1, 2)
		go p.A.Start()
		time.Sleep(time.Millisecond)
		quit := make(chan struct{})
		go func() {
			n := 0
			for {
				n++
				rec := agg.Rec{Key: "k1", Sp: "a", Dp: "b", Ftype: 1, Start: 1, End: 1 + n, Vals: []int{0, 1, 0, 0, 1, 0}, Reason: 2, Cip: []int{0, 0, 0, 0}}
				select {
				case p.MsgCh <- agg.BuildMessage(rec):
				case <-quit:
					return
				}
			}
		}()
		time.Sleep(time.Duration(i%5) * 100 * time.Microsecond)
		done := make(chan struct{})
		go func() { p.A.Stop(); close(done) }()
		select {
		case <-done:
		case <-time.After(2 * time.Second):
			hung++
		}
		close(quit)
	}
	fmt.Println("Stop hung in", hung, "of 200 runs")
}
