//go:build verif

// c15: information-element value codec. For each (element, value): encode a real data record
// [element, sentinel u8 0xA5], log reported lengths and bytes, decode the bytes through the real
// collector with the matching template, log the decoded value and the sentinel.
package main

import (
	"flag"
	"fmt"
	"hash/fnv"
	"math/rand"
	"os"

	"github.com/vmware/go-ipfix/pkg/collector"
	"github.com/vmware/go-ipfix/pkg/entities"
	"github.com/vmware/go-ipfix/pkg/registry"

	"verif/harness/absv"
	"verif/harness/coll"
	"verif/harness/gen"
	"verif/harness/vt"
)

var (
	out  = flag.String("out", "trace.ndjson", "trace file")
	seed = flag.Int64("seed", 1, "seed")
	tier = flag.String("tier", "quick", "quick|thorough")
)

type drv struct {
	w         *vt.Writer
	c         *coll.C
	sentinel  *entities.InfoElement
	tids      map[*entities.InfoElement]int
	nextTid   int
	evals     int
	distinct  map[uint64]bool
	last      *entities.InfoElement
	resetPrev []int // non-nil: the element object first carries this value and is reset before it is encoded
	setLater  []int // non-nil: the element is added to its record with this value and set to the value under test afterwards
	fromNil   bool  // the element is created value-less and set through its setter (and so is a sibling, with otherVal)
	otherVal  []int
	nLater    int
}

func (d *drv) template(ie *entities.InfoElement) (int, bool) {
	if tid, ok := d.tids[ie]; ok {
		return tid, true
	}
	tid := d.nextTid
	d.nextTid++
	body := absv.TemplateBody(tid, []absv.Spec{{ID: int(ie.ElementId), Len: int(ie.Len), Ent: ie.EnterpriseId}, {ID: int(d.sentinel.ElementId), Len: 1}})
	o := d.c.Decode(absv.Message(1, 0, 7, 2, body))
	if o.Kind != "Tmpl" {
		d.w.Emit(vt.Ev{"e": "CodecSetupFailed", "f": absv.FieldOf(ie), "kind": o.Kind, "detail": fmt.Sprint(o.Err, o.Panic)})
		return 0, false
	}
	d.tids[ie] = tid
	return tid, true
}

func (d *drv) one(ie *entities.InfoElement, abs []int) {
	if ie != d.last {
		d.w.Reset(vt.Ev{"elem": ie.Name})
		d.last = ie
	}
	d.evals++
	h := fnv.New64a()
	fmt.Fprint(h, ie.Name, abs)
	d.distinct[h.Sum64()] = true
	ev := vt.Ev{"e": "Codec", "f": absv.FieldOf(ie), "v": abs}
	defer func() {
		if r := recover(); r != nil {
			ev["e"] = "Panic"
			ev["detail"] = fmt.Sprint(r)
			d.w.Emit(ev)
		}
	}()
	tid, ok := d.template(ie)
	if !ok {
		return
	}
	first := abs
	if d.resetPrev != nil {
		first = d.resetPrev // history on one element object: carries this value, is reset, is then encoded
	}
	if d.setLater != nil {
		first = d.setLater // the element is created (and added to its record) with this value and gets abs through its setter afterwards
	}
	var elem entities.InfoElementWithValue
	var err error
	if d.fromNil {
		// an element created value-less (as for a template) and given its value through the setter; a second element
		// of the same information element, created the same way, gets another value before the first is encoded
		elem, err = entities.DecodeAndCreateInfoElementWithValue(ie, nil)
		if err != nil {
			panic(err)
		}
		gen.Set(elem, abs)
		other, _ := entities.DecodeAndCreateInfoElementWithValue(ie, nil)
		gen.Set(other, d.otherVal)
		ev["fromNil"] = true
	} else {
		elem, err = gen.Elem(ie, first)
		if err != nil {
			panic(err)
		}
	}
	if d.resetPrev != nil {
		elem.ResetValue()
		ev["afterReset"] = true
	}
	sent := entities.NewUnsigned8InfoElement(d.sentinel, 0xA5)
	ev["reported"] = elem.GetLength()
	set := entities.NewSet(false)
	if err := set.PrepareSet(entities.Data, uint16(tid)); err != nil {
		panic(err)
	}
	if d.setLater != nil {
		// the record holds THESE element objects (both add paths, alternating); the value is set after the add, before anything is encoded
		var aerr error
		d.nLater++
		if d.nLater%2 == 0 {
			aerr = set.AddRecordV2([]entities.InfoElementWithValue{elem, sent}, uint16(tid))
		} else {
			aerr = set.AddRecord([]entities.InfoElementWithValue{elem, sent}, uint16(tid))
		}
		if aerr != nil {
			panic(aerr)
		}
		gen.Set(elem, abs)
		ev["setLater"] = true
		ev["reported"] = elem.GetLength()
	} else if err := set.AddRecord([]entities.InfoElementWithValue{elem, sent}, uint16(tid)); err != nil {
		panic(err)
	}
	rec := set.GetRecords()[0]
	ev["reclen"] = rec.GetRecordLength()
	ev["setlen"] = set.GetSetLength()
	buf := rec.GetBuffer()
	ev["buf"] = vt.B(buf)
	// decode through the collector
	o := d.c.Decode(absv.Message(1, 0, 7, tid, buf))
	ev["kind"] = o.Kind
	if o.Kind == "Data" {
		recs, _, perr := coll.ProjectData(o.Msg)
		if perr != nil {
			ev["kind"] = "ProjErr"
			ev["detail"] = perr.Error()
		} else {
			ev["nrec"] = len(recs)
			if len(recs) >= 1 && len(recs[0]) == 2 {
				ev["dec"] = recs[0][0]
				ev["sent"] = recs[0][1]
			} else {
				ev["dec"] = []int{}
				ev["sent"] = []int{}
			}
		}
	} else {
		ev["detail"] = fmt.Sprint(o.Err, o.Panic)
	}
	d.w.Emit(ev)
	if o.Kind == "Hang" {
		d.finish()
		os.Exit(0)
	}
}

// oneReset: an element object that carried prev and was reset encodes as the empty / zero value of its type
// (numbers, booleans, strings and variable-length octet arrays; addresses and fixed arrays have no encodable reset value)
func (d *drv) oneReset(ie *entities.InfoElement, prev []int) {
	switch ie.DataType {
	case entities.Ipv4Address, entities.Ipv6Address, entities.MacAddress:
		return
	case entities.OctetArray:
		if ie.Len != entities.VariableLength {
			return
		}
	}
	d.resetPrev = prev
	defer func() { d.resetPrev = nil }()
	d.one(ie, gen.Zero(ie))
}

func (d *drv) finish() {
	d.w.Close()
	vt.PrintSummary(vt.Summary{Events: d.w.Events(), Traces: d.w.Traces(), Evaluations: d.evals, Distinct: len(d.distinct)})
}

func main() {
	flag.Parse()
	thorough := *tier == "thorough"
	registry.LoadRegistry()
	gen.NonUTF8 = true
	custom, err := gen.RegisterCustom()
	if err != nil {
		panic(err)
	}
	w, err := vt.Open(*out)
	if err != nil {
		panic(err)
	}
	c, err := coll.New("tcp", collector.DecodingModeStrict, 0, nil)
	if err != nil {
		panic(err)
	}
	sentinel, _ := registry.GetInfoElement("protocolIdentifier", 0)
	d := &drv{w: w, c: c, sentinel: sentinel, tids: map[*entities.InfoElement]int{}, nextTid: 256, distinct: map[uint64]bool{}}
	r := rand.New(rand.NewSource(*seed))

	byName := map[string]*entities.InfoElement{}
	for _, ie := range custom {
		byName[ie.Name] = ie
	}
	get := func(name string, ent uint32) *entities.InfoElement {
		ie, err := registry.GetInfoElement(name, ent)
		if err != nil {
			panic(err)
		}
		return ie
	}

	// 1. exhaustive 8-bit and boolean; 16-bit exhaustive (thorough) or strided (quick)
	for _, ie := range []*entities.InfoElement{byName["vU8"], byName["vS8"], get("protocolIdentifier", 0)} {
		for x := 0; x < 256; x++ {
			d.one(ie, []int{x})
		}
	}
	for _, ie := range []*entities.InfoElement{byName["vBool"], get("dataRecordsReliability", 0)} {
		for _, b := range []int{0, 1} {
			d.one(ie, []int{b})
		}
	}
	stride := 1
	if !thorough {
		stride = 61
	}
	off := r.Intn(stride)
	for _, ie := range []*entities.InfoElement{byName["vU16"], byName["vS16"], get("sourceTransportPort", 0)} {
		for x := 0; x < 65536; x++ {
			if x%stride == off || x < 4 || x > 65531 || (x >= 0x7ffe && x <= 0x8001) || x == 0xff || x == 0x100 || x == 0xff00 {
				d.one(ie, []int{x >> 8, x & 255})
			}
		}
	}
	// 2. wider fixed types: boundaries + random, registry and custom elements
	fixed := []*entities.InfoElement{byName["vU32"], byName["vU64"], byName["vS32"], byName["vS64"], byName["vF32"], byName["vF64"],
		byName["vMac"], byName["vDtS"], byName["vDtMs"], byName["vIP4"], byName["vIP6"],
		get("octetDeltaCount", 0), get("flowStartSeconds", 0), get("flowStartMilliseconds", 0), get("sourceIPv4Address", 0),
		get("sourceIPv6Address", 0), get("sourceMacAddress", 0), get("ingressNetworkPolicyRulePriority", registry.AntreaEnterpriseID),
		get("absoluteError", 0), get("reverseOctetDeltaCount", registry.IANAReversedEnterpriseID), get("ingressInterface", 0)}
	nrand := 150
	if thorough {
		nrand = 4000
	}
	for _, ie := range fixed {
		for i := 0; i < nrand; i++ {
			d.one(ie, gen.Abs(r, ie, 0))
		}
	}
	// order of operations on element and record objects: value set after the element was added to its record (fixed-width
	// types: the record length does not depend on the value); elements created value-less and set through their setters
	for _, ie := range custom[:18] {
		for i := 0; i < 4; i++ {
			if gen.Width(ie) > 0 {
				d.setLater = gen.Abs(r, ie, 0)
				d.one(ie, gen.Abs(r, ie, 0))
				d.setLater = nil
			}
			d.fromNil, d.otherVal = true, gen.Abs(r, ie, 40)
			d.one(ie, gen.Abs(r, ie, 40))
			d.fromNil = false
		}
	}
	// reset histories: one element of every type, several previous values each
	for _, ie := range custom[:18] {
		for i := 0; i < 6; i++ {
			d.oneReset(ie, gen.Abs(r, ie, 300))
		}
	}
	// float bit patterns: every listed pattern
	for _, ie := range []*entities.InfoElement{byName["vF32"], byName["vF64"]} {
		for i := 0; i < 64; i++ {
			d.one(ie, gen.Abs(r, ie, 0))
		}
	}
	// IPv4 given in its 16-byte representation is the same address
	// 3. variable-length strings and octet arrays: every length 0..300 (quick: 0..40, 245..265), top lengths, random
	vars := []*entities.InfoElement{byName["vString"], byName["vOctetVar"], get("interfaceName", 0), get("sourcePodName", registry.AntreaEnterpriseID), get("ipHeaderPacketSection", 0)}
	mk := func(ie *entities.InfoElement, n int) []int {
		b := make([]int, n)
		for i := range b {
			b[i] = r.Intn(256)
		}
		return b
	}
	for _, ie := range vars {
		for n := 0; n <= 300; n++ {
			if thorough || n <= 40 || (n >= 245 && n <= 265) {
				d.one(ie, mk(ie, n))
			}
		}
	}
	// strings and octet arrays with NUL bytes at the end / start / everywhere
	for _, ie := range vars {
		for _, n := range []int{1, 2, 5, 254, 255, 256} {
			for pat := 0; pat < 3; pat++ {
				b := mk(ie, n)
				switch pat {
				case 0:
					b[n-1] = 0
					if n > 2 {
						b[n-2] = 0
					}
				case 1:
					b[0] = 0
				case 2:
					for i := range b {
						b[i] = 0
					}
				}
				d.one(ie, b)
			}
		}
	}
	tops := []int{65530, 65531, 65532, 65533, 65534, 65535}
	if !thorough {
		tops = []int{65534, 65535}
	}
	for _, ie := range []*entities.InfoElement{byName["vString"], byName["vOctetVar"]} {
		for _, n := range tops {
			d.one(ie, mk(ie, n))
		}
	}
	nvar := 60
	if thorough {
		nvar = 2000
	}
	for i := 0; i < nvar; i++ {
		ie := vars[r.Intn(len(vars))]
		n := r.Intn(3000)
		if r.Intn(10) == 0 {
			n = r.Intn(65536)
		}
		d.one(ie, mk(ie, n))
	}
	// 4. fixed-length octet arrays 1..64 and 300
	for _, ie := range custom {
		if ie.DataType == entities.OctetArray && ie.Len != entities.VariableLength {
			d.one(ie, mk(ie, int(ie.Len)))
			if thorough {
				d.one(ie, mk(ie, int(ie.Len)))
			}
		}
	}
	d.finish()
}
