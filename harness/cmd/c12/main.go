//go:build verif

// c12: a real collecting process under many concurrent clients (tcp / udp / tls), under -race.
package main

import (
	"crypto/tls"
	"crypto/x509"
	"flag"
	"fmt"
	"math/rand"
	"net"
	"os"
	"runtime"
	"strconv"
	"strings"
	"sync"
	"sync/atomic"
	"time"

	"github.com/vmware/go-ipfix/pkg/collector"
	"github.com/vmware/go-ipfix/pkg/registry"

	"verif/harness/absv"
	"verif/harness/pki"
	"verif/harness/vt"
)

var (
	out  = flag.String("out", "trace.ndjson", "trace file")
	seed = flag.Int64("seed", 1, "seed")
	tier = flag.String("tier", "quick", "quick|thorough")
)

func collectorGoroutines() int {
	buf := make([]byte, 4<<20)
	n := runtime.Stack(buf, true)
	c := 0
	for _, g := range strings.Split(string(buf[:n]), "\n\n") {
		if strings.Contains(g, "go-ipfix/pkg/collector.") && !strings.Contains(g, "main.") {
			c++
		}
	}
	return c
}

func msg(c, i int) []byte {
	if i == 1 {
		return absv.Message(1, 1, uint32(c), 2, absv.TemplateBody(256, []absv.Spec{{ID: 4, Len: 1}, {ID: 82, Len: 65535}}))
	}
	body := []byte{byte(i), 3, byte(c), byte(i >> 8), byte(i)}
	return absv.Message(2, uint32(i), uint32(c), 256, body)
}

func perturb(r *rand.Rand) {
	switch r.Intn(8) {
	case 0:
		runtime.Gosched()
	case 1:
		time.Sleep(time.Duration(r.Intn(200)) * time.Microsecond)
	}
}

type run struct {
	w        *vt.Writer
	cp       *collector.CollectingProcess
	proto    string // tcp | udp | tls
	ca       *pki.CA
	addr     string
	received atomic.Int64
	logged   atomic.Int64
	stopCons chan struct{}
	consDone chan struct{}
	pause    atomic.Bool // the consumer stops receiving while set
	stopRet  atomic.Bool // Stop has returned (and StopEnd is logged)
	shared   atomic.Bool // scenario E: every client uses observation domain 1; client c numbers its messages 100000*c + i
}

func start(w *vt.Writer, proto string, n int) *run {
	r := &run{w: w, proto: proto, stopCons: make(chan struct{}), consDone: make(chan struct{})}
	in := collector.CollectorInput{Address: "127.0.0.1:0", Protocol: "tcp", MaxBufferSize: 65535}
	if proto == "udp" {
		in.Protocol = "udp"
	}
	if proto == "tls" {
		r.ca = pki.NewCA("verif-ca")
		srv := pki.Issue(r.ca, "collector", pki.Opts{IPs: []net.IP{net.ParseIP("127.0.0.1")}})
		in.IsEncrypted, in.ServerCert, in.ServerKey = true, srv.CertPEM, srv.KeyPEM
	}
	cp, err := collector.InitCollectingProcess(in)
	if err != nil {
		panic(err)
	}
	r.cp = cp
	go cp.Start()
	for cp.GetAddress() == nil {
		time.Sleep(200 * time.Microsecond)
	}
	r.addr = cp.GetAddress().String()
	w.Reset(vt.Ev{"proto": proto, "n": n, "reliable": proto != "udp"})
	go func() { // the consumer keeps draining
		defer close(r.consDone)
		rr := rand.New(rand.NewSource(int64(n)))
		for {
			for r.pause.Load() {
				time.Sleep(2 * time.Millisecond)
			}
			late := r.stopRet.Load() // read BEFORE the receive begins
			select {
			case m := <-cp.GetMsgChan():
				r.received.Add(1)
				dc, di := int(m.GetObsDomainID()), int(m.GetSequenceNum())
				if r.shared.Load() {
					dc, di = di/100000, di%100000
				}
				w.Emit(vt.Ev{"e": "Deliver", "c": dc, "i": di, "late": late})
				r.logged.Add(1)
				perturb(rr)
			case <-r.stopCons:
				return
			}
		}
	}()
	return r
}

func (r *run) dial() (net.Conn, error) {
	switch r.proto {
	case "udp":
		return net.Dial("udp", r.addr)
	case "tls":
		pool := x509.NewCertPool()
		pool.AppendCertsFromPEM(r.ca.CertPEM)
		return tls.Dial("tcp", r.addr, &tls.Config{RootCAs: pool, MinVersion: tls.VersionTLS12})
	}
	return net.Dial("tcp", r.addr)
}

// client writes messages 1..k; abrupt: the last one only half, then close.
func (r *run) client(c, k int, abrupt bool, rr *rand.Rand, until <-chan struct{}) {
	conn, err := r.dial()
	if err != nil {
		return
	}
	defer conn.Close()
	for i := 1; i <= k; i++ {
		select {
		case <-until:
			k = i + 3 // a few more attempts after the signal (they are written after Stop returned)
			until = nil
		default:
		}
		perturb(rr)
		b := msg(c, i)
		if abrupt && i == k && r.proto != "udp" {
			r.w.Emit(vt.Ev{"e": "WriteHalf", "c": c, "i": i})
			conn.Write(b[:len(b)/2])
			return
		}
		r.w.Emit(vt.Ev{"e": "Write", "c": c, "i": i})
		conn.SetWriteDeadline(time.Now().Add(2 * time.Second))
		if _, err := conn.Write(b); err != nil {
			if until == nil && r.proto != "udp" && !r.stopRet.Load() {
				r.w.Emit(vt.Ev{"e": "WriteFailed", "c": c}) // no Stop in this scenario: the collector dropped a healthy connection
			}
			return
		}
		if r.proto == "udp" && i == 1 {
			time.Sleep(2 * time.Millisecond) // let the template be decoded before data follows
		}
	}
	if r.proto == "udp" {
		time.Sleep(5 * time.Millisecond)
	}
	r.w.Emit(vt.Ev{"e": "ClientClose", "c": c})
}

func (r *run) quiesce() {
	// everything the consumer received has been logged, and nothing new for a while
	for stable := 0; stable < 3; {
		a := r.received.Load()
		time.Sleep(10 * time.Millisecond)
		if r.received.Load() == a && r.logged.Load() == a {
			stable++
		} else {
			stable = 0
		}
	}
}

func (r *run) stop() {
	r.w.Emit(vt.Ev{"e": "StopBegin"})
	t := time.Now()
	r.cp.Stop()
	r.w.Emit(vt.Ev{"e": "StopEnd", "ms": int(time.Since(t) / time.Millisecond)})
	r.stopRet.Store(true)
}

func (r *run) afterStop() {
	leaked := 0
	for k := 0; k < 100; k++ {
		if leaked = collectorGoroutines(); leaked == 0 {
			break
		}
		time.Sleep(10 * time.Millisecond)
	}
	relisten := false
	if r.proto == "udp" {
		if ua, err := net.ResolveUDPAddr("udp", r.addr); err == nil {
			if c, err := net.ListenUDP("udp", ua); err == nil {
				relisten = true
				c.Close()
			}
		}
	} else if ln, err := net.Listen("tcp", r.addr); err == nil {
		relisten = true
		ln.Close()
	}
	if !relisten {
		// the bind failed: only a socket of THIS process still bound to the port counts (another
		// process on the machine may have been given the freed ephemeral port in the meantime)
		relisten = !ownSocketOnPort(r.proto == "udp", r.addr)
	}
	r.quiesce()
	r.w.Emit(vt.Ev{"e": "AfterStop", "leaked": leaked, "relisten": relisten})
	close(r.stopCons)
	<-r.consDone
}

// watchdog: a scenario that does not finish (collector deadlocked, Stop never returns) becomes a Hang
// event and ends the run; the goroutines it blocks cannot be recovered.
var wd *time.Timer

// ownSocketOnPort reports whether this process holds a socket bound to the local port of addr
// (a listening one for TCP), going by /proc/net/{tcp,udp} and the socket inodes of /proc/self/fd.
func ownSocketOnPort(udp bool, addr string) bool {
	_, ps, err := net.SplitHostPort(addr)
	if err != nil {
		return true
	}
	port, _ := strconv.Atoi(ps)
	own := map[string]bool{}
	fds, _ := os.ReadDir("/proc/self/fd")
	for _, fd := range fds {
		if l, err := os.Readlink("/proc/self/fd/" + fd.Name()); err == nil && strings.HasPrefix(l, "socket:[") {
			own[strings.TrimSuffix(strings.TrimPrefix(l, "socket:["), "]")] = true
		}
	}
	files := []string{"/proc/net/tcp", "/proc/net/tcp6"}
	if udp {
		files = []string{"/proc/net/udp", "/proc/net/udp6"}
	}
	for _, f := range files {
		b, err := os.ReadFile(f)
		if err != nil {
			continue
		}
		for _, line := range strings.Split(string(b), "\n")[1:] {
			fs := strings.Fields(line)
			if len(fs) < 10 {
				continue
			}
			i := strings.LastIndex(fs[1], ":")
			p, err := strconv.ParseInt(fs[1][i+1:], 16, 32)
			if err != nil || int(p) != port {
				continue
			}
			if !udp && fs[3] != "0A" { // TCP: listening sockets only
				continue
			}
			if own[fs[9]] {
				return true
			}
		}
	}
	return false
}

func arm(w *vt.Writer, what string) {
	if wd != nil {
		wd.Stop()
	}
	wd = time.AfterFunc(45*time.Second, func() {
		w.Emit(vt.Ev{"e": "Hang", "what": what})
		w.Close()
		vt.PrintSummary(vt.Summary{Events: w.Events(), Traces: w.Traces(), Evaluations: w.Events(), Distinct: 2})
		os.Exit(0)
	})
}

func main() {
	flag.Parse()
	thorough := *tier == "thorough"
	registry.LoadRegistry()
	w, err := vt.Open(*out)
	if err != nil {
		panic(err)
	}
	r := rand.New(rand.NewSource(*seed))
	evals, scen := 0, 0
	sizes := []int{1, 4, 16}
	reps := 1
	if thorough {
		sizes = []int{1, 4, 16, 64}
		reps = 4
	}
	for rep := 0; rep < reps; rep++ {
		for _, proto := range []string{"tcp", "udp", "tls"} {
			for _, n := range sizes {
				runtime.GOMAXPROCS([]int{2, 16}[r.Intn(2)])
				// (A) all clients run to completion, then Stop
				arm(w, fmt.Sprintf("scenario A %s n=%d", proto, n))
				ru := start(w, proto, n)
				var wg sync.WaitGroup
				for c := 1; c <= n; c++ {
					wg.Add(1)
					k := 2 + r.Intn(40)
					abrupt := r.Intn(5) == 0
					sd := r.Int63()
					go func(c int) {
						defer wg.Done()
						ru.client(c, k, abrupt, rand.New(rand.NewSource(sd)), nil)
					}(c)
					evals += k
				}
				// the application watches the counters while traffic flows (the driver is built with -race)
				pollDone, polled := make(chan struct{}), make(chan struct{})
				go func() {
					defer close(polled)
					for {
						select {
						case <-pollDone:
							return
						default:
						}
						_ = ru.cp.GetNumRecordsReceived()
						_ = ru.cp.GetNumConnToCollector()
						time.Sleep(200 * time.Microsecond)
					}
				}()
				wg.Wait()
				close(pollDone)
				<-polled
				if proto != "udp" {
					ok := false
					for k := 0; k < 300; k++ {
						if ru.cp.GetNumConnToCollector() == 0 {
							ok = true
							break
						}
						time.Sleep(10 * time.Millisecond)
					}
					w.Emit(vt.Ev{"e": "ConnZero", "ok": ok})
				}
				ru.quiesce()
				w.Emit(vt.Ev{"e": "Final"})
				ru.stop()
				ru.afterStop()
				scen++
				// (B) Stop during traffic, clients connected and mid-message
				arm(w, fmt.Sprintf("scenario B %s n=%d", proto, n))
				ru = start(w, proto, n+1)
				until := make(chan struct{})
				for c := 1; c <= n; c++ {
					wg.Add(1)
					sd := r.Int63()
					go func(c int) {
						defer wg.Done()
						ru.client(c, 100000, false, rand.New(rand.NewSource(sd)), until)
					}(c)
				}
				// one more client that is MID-MESSAGE when Stop is called: it has written half of its
				// next message and keeps the connection open
				var midConn net.Conn
				if proto != "udp" {
					if c, err := ru.dial(); err == nil {
						midConn = c
						b := msg(n+1, 1)
						c.Write(b[:len(b)/2])
					}
				}
				// over TLS also a peer that is connected but never starts its handshake
				var stalled net.Conn
				if proto == "tls" {
					stalled, _ = net.Dial("tcp", ru.addr)
				}
				time.Sleep(time.Duration(5+r.Intn(40)) * time.Millisecond)
				ru.stop()
				if midConn != nil {
					midConn.Close()
				}
				if stalled != nil {
					stalled.Close()
				}
				close(until)
				wg.Wait()
				ru.afterStop()
				scen++
			}
		}
	}
	// (E) several exporters share ONE observation domain and template id; one of them keeps re-sending the
	// (unchanged) template while the others stream data decoded with it
	nE := 2
	if thorough {
		nE = 8
	}
	for _, proto := range []string{"tcp", "udp"} {
		for k := 0; k < nE; k++ {
			n, streaming := 3, 3
			if proto == "tcp" {
				n, streaming = 4, 3 // client 4 breaks off mid-message
			}
			arm(w, "scenario E "+proto)
			ru := start(w, proto, n)
			ru.shared.Store(true)
			var wg sync.WaitGroup
			for c := 1; c <= streaming; c++ {
				wg.Add(1)
				go func(c int) {
					defer wg.Done()
					conn, err := ru.dial()
					if err != nil {
						return
					}
					defer conn.Close()
					for i := 1; i <= 300; i++ {
						var b []byte
						if i == 1 || (c == 1 && i%2 == 1) { // client 1: every other message is the template again
							b = absv.Message(1, uint32(100000*c+i), 1, 2, absv.TemplateBody(256, []absv.Spec{{ID: 4, Len: 1}, {ID: 82, Len: 65535}}))
						} else {
							b = absv.Message(2, uint32(100000*c+i), 1, 256, []byte{byte(i), 3, byte(c), byte(i >> 8), byte(i)})
						}
						ru.w.Emit(vt.Ev{"e": "Write", "c": c, "i": i})
						if _, err := conn.Write(b); err != nil {
							ru.w.Emit(vt.Ev{"e": "WriteFailed", "c": c}) // the collector dropped a healthy connection
							return
						}
						if i == 1 {
							time.Sleep(3 * time.Millisecond) // every client's template is in before data flows
						}
						if proto == "udp" && i%8 == 0 {
							time.Sleep(200 * time.Microsecond)
						}
					}
					if proto == "udp" {
						time.Sleep(5 * time.Millisecond)
					}
					ru.w.Emit(vt.Ev{"e": "ClientClose", "c": c})
				}(c)
				evals += 300
			}
			if proto == "tcp" {
				// one more exporter on the same observation domain and template id breaks off in the middle of a message
				// while the others are streaming: their sessions (and the template they all use) are unaffected
				wg.Add(1)
				go func(c int) {
					defer wg.Done()
					conn, err := ru.dial()
					if err != nil {
						return
					}
					for i := 1; i <= 3; i++ {
						var b []byte
						if i == 1 {
							b = absv.Message(1, uint32(100000*c+i), 1, 2, absv.TemplateBody(256, []absv.Spec{{ID: 4, Len: 1}, {ID: 82, Len: 65535}}))
						} else {
							b = absv.Message(2, uint32(100000*c+i), 1, 256, []byte{byte(i), 3, byte(c), byte(i >> 8), byte(i)})
						}
						ru.w.Emit(vt.Ev{"e": "Write", "c": c, "i": i})
						conn.Write(b)
						time.Sleep(2 * time.Millisecond)
					}
					b := absv.Message(2, uint32(100000*c+4), 1, 256, []byte{4, 3, byte(c), 0, 4})
					ru.w.Emit(vt.Ev{"e": "WriteHalf", "c": c, "i": 4})
					conn.Write(b[:len(b)-3])
					conn.Close()
				}(n)
			}
			wg.Wait()
			ru.quiesce()
			w.Emit(vt.Ev{"e": "Final"})
			ru.stop()
			ru.afterStop()
			scen++
		}
	}
	// (F) a message that arrives in two pieces, then silence for longer than any plausible read timeout, then more
	// messages on the same connection: a healthy connection is never dropped
	for _, proto := range []string{"tcp", "tls"} {
		arm(w, "scenario F "+proto)
		ru := start(w, proto, 1)
		conn, err := ru.dial()
		if err == nil {
			wr := func(i int, split bool) bool {
				b := msg(1, i)
				ru.w.Emit(vt.Ev{"e": "Write", "c": 1, "i": i})
				if split {
					if _, err := conn.Write(b[:len(b)/2]); err != nil {
						return false
					}
					time.Sleep(20 * time.Millisecond)
					b = b[len(b)/2:]
				}
				_, err := conn.Write(b)
				return err == nil
			}
			ok := wr(1, false) && wr(2, true) && wr(3, false)
			time.Sleep(2400 * time.Millisecond)
			for i := 4; ok && i <= 8; i++ {
				ok = wr(i, i == 6)
				time.Sleep(30 * time.Millisecond)
			}
			evals += 8
			if !ok {
				w.Emit(vt.Ev{"e": "WriteFailed", "c": 1}) // the collector dropped a healthy connection
			}
			w.Emit(vt.Ev{"e": "ClientClose", "c": 1})
			conn.Close()
		}
		ru.quiesce()
		w.Emit(vt.Ev{"e": "Final"})
		ru.stop()
		ru.afterStop()
		scen++
	}
	// (D) Stop while the consumer is momentarily not receiving: Stop may only return once every reader has
	// handed over (or dropped) its message; right after it returned, with the consumer still paused,
	// no goroutine of the collector may be left
	nD := 3
	if thorough {
		nD = 12
	}
	for _, proto := range []string{"tcp", "tls"} {
		for k := 0; k < nD; k++ {
			n := 2 + r.Intn(6)
			arm(w, "scenario D "+proto)
			ru := start(w, proto, n)
			until := make(chan struct{})
			var wg sync.WaitGroup
			for c := 1; c <= n; c++ {
				wg.Add(1)
				sd := r.Int63()
				go func(c int) {
					defer wg.Done()
					ru.client(c, 100000, false, rand.New(rand.NewSource(sd)), until)
				}(c)
			}
			time.Sleep(time.Duration(5+r.Intn(20)) * time.Millisecond)
			ru.pause.Store(true)
			time.Sleep(10 * time.Millisecond) // readers are now blocked handing their message over
			stopped := make(chan struct{})
			go func() {
				ru.stop()
				// the consumer is still paused: whatever is alive now cannot be drained by it
				leaked := 0
				for q := 0; q < 10; q++ {
					if leaked = collectorGoroutines(); leaked == 0 {
						break
					}
					time.Sleep(10 * time.Millisecond)
				}
				if ru.pause.Load() {
					w.Emit(vt.Ev{"e": "StopLeak", "leaked": leaked})
				}
				close(stopped)
			}()
			time.Sleep(300 * time.Millisecond)
			ru.pause.Store(false) // the consumer drains again
			<-stopped
			close(until)
			wg.Wait()
			ru.afterStop()
			scen++
		}
	}
	// (C) Stop right after start (address published), repeatedly
	nC := 20
	if thorough {
		nC = 100
	}
	for _, proto := range []string{"tcp", "udp"} {
		for k := 0; k < nC; k++ {
			arm(w, "scenario C "+proto)
			ru := start(w, proto, 1)
			ru.stop()
			ru.afterStop()
			scen++
		}
	}
	wd.Stop()
	w.Close()
	vt.PrintSummary(vt.Summary{Events: w.Events(), Traces: w.Traces(), Evaluations: evals + scen, Distinct: scen})
}
