//go:build verif

// c13: concurrent histories of a real AggregationProcess (ingesting goroutines, the built-in worker
// pool, expiry scans with export+reset, queries, virtual-time shifts), recorded with inv/ret stamps
// from one atomic counter, for the TLC linearization search (spec/trace/AggLin.tla).
package main

import (
	"encoding/json"
	"flag"
	"fmt"
	"hash/fnv"
	"math/rand"
	"os"
	"runtime"
	"sort"
	"sync"
	"sync/atomic"
	"time"

	"github.com/vmware/go-ipfix/pkg/intermediate"
	"github.com/vmware/go-ipfix/pkg/registry"

	"verif/harness/agg"
	"verif/harness/vt"
)

var (
	out  = flag.String("out", "trace.ndjson", "histories file")
	seed = flag.Int64("seed", 1, "seed")
	tier = flag.String("tier", "quick", "quick|thorough")
)

type op = map[string]any

type hist struct {
	mu    sync.Mutex
	ops   []op
	clock atomic.Int64
}

func (h *hist) begin() int64 { return h.clock.Add(1) }
func (h *hist) end(o op, inv int64) {
	o["inv"] = inv
	o["ret"] = h.clock.Add(1)
	h.mu.Lock()
	h.ops = append(h.ops, o)
	h.mu.Unlock()
}

func perturb(r *rand.Rand) {
	switch r.Intn(6) {
	case 0:
		runtime.Gosched()
	case 1:
		time.Sleep(time.Duration(r.Intn(50)) * time.Microsecond)
	}
}

type stream struct {
	key, kind string
	end       int
	vals      []int
	start     int
}

func (s *stream) next(r *rand.Rand, stale bool) agg.Rec {
	rec := agg.Rec{Key: s.key, Reason: 2, Ftype: 2, Start: s.start, Cip: []int{0, 0, 0, 0}}
	switch s.kind {
	case "intra":
		rec.Sp, rec.Dp, rec.Sns, rec.Dns, rec.Ftype = "pod-a", "pod-b", "ns-a", "ns-b", 1
	case "src":
		rec.Sp, rec.Sns = "pod-a", "ns-a"
	case "dst":
		rec.Dp, rec.Dns = "pod-b", "ns-b"
		rec.Cip = []int{10, 96, 0, 1} // the destination node knows the Service's cluster IP
	}
	if stale {
		rec.End = s.end - r.Intn(2)
		if rec.End <= s.start {
			rec.End = s.start + 1
		}
		rec.Vals = append([]int{}, s.vals...)
		return rec
	}
	s.end += 1 + r.Intn(3)
	nv := make([]int, 6)
	for i := range nv {
		if i == 1 || i == 4 {
			nv[i] = 1 + r.Intn(40)
		} else {
			nv[i] = s.vals[i] + r.Intn(40)
		}
	}
	s.vals = nv
	rec.End = s.end
	rec.Vals = nv
	return rec
}

func flowList(p *agg.P) []any {
	flows, _, _ := p.A.VerifSnapshot()
	sort.Slice(flows, func(i, j int) bool { return agg.KeyName(flows[i].Key) < agg.KeyName(flows[j].Key) })
	out := make([]any, 0, len(flows))
	for _, f := range flows {
		out = append(out, p.FlowProj(agg.KeyName(f.Key), f))
	}
	return out
}

// exportProj projects a record inside the scan callback (the lock is held: no API calls).
func exportProj(name string, r *intermediate.AggregationFlowRecord, p *agg.P) vt.Ev {
	return p.FlowProjOf(name, r.Record.GetElementMap(), r.ReadyToSend, p.A.AreCorrelatedFieldsFilled(*r))
}

func runHistory(r *rand.Rand, nProd int, pool bool, undisciplined bool) (op, int) {
	workers := 1
	if pool {
		workers = 1 + r.Intn(4)
	}
	p := agg.New(2, 3, 1, workers)
	h := &hist{}
	if pool {
		go p.A.Start()
		time.Sleep(2 * time.Millisecond)
	}
	keys := []string{"k1", "k2", "k4", "k6"}
	nkeys := 1 + r.Intn(len(keys))
	// streams: one producer per (key, node) keeps the exporter contract in every linearization
	var streams []*stream
	for i := 0; i < nkeys; i++ {
		st := 1000 + r.Intn(20)
		if r.Intn(3) == 0 {
			streams = append(streams, &stream{key: keys[i], kind: "intra", end: st, start: st, vals: make([]int, 6)})
		} else {
			streams = append(streams, &stream{key: keys[i], kind: "src", end: st, start: st, vals: make([]int, 6)},
				&stream{key: keys[i], kind: "dst", end: st, start: st, vals: make([]int, 6)})
		}
	}
	var wg sync.WaitGroup
	budget := 26 + r.Intn(10)
	if pool { // messages taken by the worker pool have no observable completion: keep the search small
		budget = 8 + r.Intn(6)
	}
	perProd := budget / (nProd + 2)
	if perProd < 1 {
		perProd = 1
	}
	var poolOps []op
	var poolMu, streamMu sync.Mutex
	for g := 0; g < nProd; g++ {
		// producer g owns streams g, g+nProd, ... (or, undisciplined, draws from all of them)
		var mine []*stream
		for i := g; i < len(streams); i += nProd {
			mine = append(mine, streams[i])
		}
		if len(mine) == 0 {
			mine = []*stream{streams[g%len(streams)]}
			if !undisciplined {
				continue
			}
		}
		rr := rand.New(rand.NewSource(r.Int63()))
		wg.Add(1)
		go func(mine []*stream) {
			defer wg.Done()
			for i := 0; i < perProd; i++ {
				perturb(rr)
				var rec agg.Rec
				if undisciplined {
					// a copy of a shared stream's state: end times may repeat or go back between producers
					streamMu.Lock()
					shared := streams[rr.Intn(len(streams))]
					if rr.Intn(3) == 0 {
						rec = shared.next(rr, true)
					} else {
						rec = shared.next(rr, false)
					}
					streamMu.Unlock()
					// totals stay 0 in this family: records of one node can be aggregated in any order,
					// and a decreasing total would wrap around in uint64 arithmetic (outside the model's range)
					rec.Vals = []int{0, rec.Vals[1], 0, 0, rec.Vals[4], 0}
					// (the lock orders record GENERATION only; ingestion below races freely, so records of
					// one node can reach the process out of order: the stale-record path)
				} else {
					rec = mine[rr.Intn(len(mine))].next(rr, false)
				}
				if pool && workers > 1 {
					// several workers take messages of one stream concurrently: their order is not
					// preserved, so totals stay 0 here as well (see the undisciplined family)
					rec.Vals = []int{0, rec.Vals[1], 0, 0, rec.Vals[4], 0}
				}
				o := op{"kind": "Ingest", "r": rec}
				inv := h.begin()
				if pool {
					p.MsgCh <- agg.BuildMessage(rec) // returns when a worker has taken the message
					o["inv"] = inv
					poolMu.Lock()
					poolOps = append(poolOps, o)
					poolMu.Unlock()
				} else {
					err := p.A.AggregateMsgByFlowKey(agg.BuildMessage(rec))
					o["err"] = err != nil
					h.end(o, inv)
				}
			}
		}(mine)
	}
	// scanners (one, sometimes two at once): expiry scans whose callback exports (snapshots) the record and resets its counters
	nScan := 1
	if r.Intn(3) == 0 {
		nScan = 2
	}
	for sc := 0; sc < nScan; sc++ {
		wg.Add(1)
		scanSeed := r.Int63()
		go func() {
			defer wg.Done()
			rr := rand.New(rand.NewSource(scanSeed))
			for i := 0; i < 2+rr.Intn(3); i++ {
				perturb(rr)
				time.Sleep(time.Duration(rr.Intn(300)) * time.Microsecond)
				slow := rr.Intn(2) == 0
				if rr.Intn(2) == 0 {
					d := 1 + rr.Intn(4) // 3 or more: every flow's inactive deadline passes, the scan removes them all
					inv := h.begin()
					p.A.VerifShiftDeadlines(time.Duration(d) * agg.Unit)
					h.end(op{"kind": "Advance", "d": d}, inv)
				}
				calls := []string{}
				exports := []any{}
				inv := h.begin()
				err := p.A.ForAllExpiredFlowRecordsDo(func(k intermediate.FlowKey, rec *intermediate.AggregationFlowRecord) error {
					n := agg.KeyName(k)
					calls = append(calls, n)
					exports = append(exports, exportProj(n, rec, p))
					if slow { // a slow export: other callers queue up on the mutex meanwhile
						time.Sleep(time.Duration(1+rr.Intn(3)) * time.Millisecond)
					}
					return p.A.ResetStatAndThroughputElementsInRecord(rec.Record)
				})
				h.end(op{"kind": "Scan", "fail": []string{}, "calls": calls, "exports": exports, "err": err != nil}, inv)
			}
		}()
	}
	// what a query returned is the caller's: it is looked at again when everything is over
	type keptRes struct {
		k    string
		m    map[string]interface{}
		proj string
	}
	var kept []keptRes
	var keptMu sync.Mutex
	// queries
	for q := 0; q < 2; q++ {
		wg.Add(1)
		qSeed := r.Int63()
		go func() {
			defer wg.Done()
			rr := rand.New(rand.NewSource(qSeed))
			for i := 0; i < 3+rr.Intn(4); i++ {
				perturb(rr)
				time.Sleep(time.Duration(rr.Intn(400)) * time.Microsecond)
				switch rr.Intn(5) {
				case 0, 3:
					inv := h.begin()
					n := p.A.GetNumFlows()
					h.end(op{"kind": "NumFlows", "n": int(n)}, inv)
				case 4: // all records (no filter)
					inv := h.begin()
					recs := p.A.GetRecords(nil)
					fl := make([]any, 0, len(recs))
					for _, m := range recs {
						fl = append(fl, p.FlowProjOf(agg.KeyOfMap(m), m, false, false))
					}
					h.end(op{"kind": "GetAllQ", "flows": fl}, inv)
				case 1:
					inv := h.begin()
					d := p.A.GetExpiryFromExpirePriorityQueue()
					h.end(op{"kind": "Expiry", "units": int((d + agg.Unit/2) / agg.Unit)}, inv)
				default:
					k := keys[rr.Intn(nkeys)]
					fk := agg.Pool[k].FlowKey()
					inv := h.begin()
					recs := p.A.GetRecords(&fk)
					o := op{"kind": "Get", "k": k, "found": len(recs) == 1}
					if len(recs) == 1 {
						o["flow"] = p.FlowProjOf(k, recs[0], false, false)
						o["partial"] = true
						keptMu.Lock()
						kept = append(kept, keptRes{k, recs[0], fmt.Sprint(p.FlowProjOf(k, recs[0], false, false))})
						keptMu.Unlock()
					}
					h.end(o, inv)
				}
			}
		}()
	}
	joined := make(chan struct{})
	go func() { wg.Wait(); close(joined) }()
	select {
	case <-joined:
	case <-time.After(20 * time.Second):
		// callers blocked for good: no sequential execution explains an operation that never returns
		ret := h.clock.Add(1)
		h.mu.Lock()
		h.ops = append(h.ops, op{"kind": "Hang", "inv": ret, "ret": ret + 1, "detail": "operations did not return within 20 s (deadlock)"})
		hung := op{"ops": h.ops, "producers": nProd, "pool": pool, "undisciplined": undisciplined, "hung": true}
		n := len(h.ops)
		h.mu.Unlock()
		return hung, n
	}
	if pool {
		// every message was taken by a worker; wait until the workers have finished their last job:
		// the aggregate state must be stable over 6 consecutive polls 10 ms apart (at most 3 s)
		prev, stable := "", 0
		for k := 0; k < 300 && stable < 6; k++ {
			time.Sleep(10 * time.Millisecond)
			cur := fmt.Sprint(p.A.GetNumFlows(), p.A.GetRecords(nil))
			if cur == prev {
				stable++
			} else {
				prev, stable = cur, 0
			}
		}
		ret := h.clock.Add(1)
		for _, o := range poolOps {
			o["ret"] = ret
			h.ops = append(h.ops, o)
		}
	}
	inv := h.begin()
	h.end(op{"kind": "GetAll", "flows": flowList(p)}, inv)
	for _, kr := range kept {
		inv := h.begin()
		h.end(op{"kind": "Recheck", "k": kr.k, "same": fmt.Sprint(p.FlowProjOf(kr.k, kr.m, false, false)) == kr.proj}, inv)
	}
	if pool {
		p.A.Stop()
	}
	// descending by return stamp: TLC's depth-first queue tries the LAST successor first
	sort.SliceStable(h.ops, func(i, j int) bool {
		ri, rj := h.ops[i]["ret"].(int64), h.ops[j]["ret"].(int64)
		if ri != rj {
			return ri > rj
		}
		return h.ops[i]["inv"].(int64) > h.ops[j]["inv"].(int64)
	})
	return op{"ops": h.ops, "producers": nProd, "pool": pool, "undisciplined": undisciplined}, len(h.ops)
}

// realTimeHistory: time passes by itself (unit 400 ms, timeouts 2 and 3 units) instead of being shifted under the
// process mutex, so a deadline can pass WHILE a scan is running.  Ingests happen at phase 0.25 of a unit, scans and
// queries at phase 0.4-0.75, the "Advance" operations are sleeps across the unit boundary (phase 0.8 -> 0.2): with
// these phases a deadline and a scan instant are never closer than 0.35 unit, so the integer comparison of the model
// equals the real one.  Scan A starts in unit 2 and its export callback lasts into unit 3; scan B is invoked in
// unit 3, after flow k2's active deadline has passed.  A history whose operations missed their instants by more
// than 60 ms (machine stalled) is discarded: returned nops = 0.
func realTimeHistory(r *rand.Rand) (op, int) {
	const U = 400 * time.Millisecond
	p := agg.NewUnit(U, 2, 3, 1, 1)
	h := &hist{}
	t0 := time.Now()
	late := false
	at := func(units float64) { // sleep until the given instant; note lateness
		d := time.Until(t0.Add(time.Duration(units * float64(U))))
		if d < -60*time.Millisecond {
			late = true
		}
		time.Sleep(d)
	}
	ingest := func(rec agg.Rec) {
		inv := h.begin()
		err := p.A.AggregateMsgByFlowKey(agg.BuildMessage(rec))
		h.end(op{"kind": "Ingest", "r": rec, "err": err != nil}, inv)
	}
	s1 := &stream{key: "k1", kind: "intra", end: 1000, start: 1000, vals: make([]int, 6)}
	s2 := &stream{key: "k2", kind: "intra", end: 1010, start: 1010, vals: make([]int, 6)}
	var wg sync.WaitGroup
	// the clock: one Advance operation per unit boundary
	wg.Add(1)
	go func() {
		defer wg.Done()
		for n := 0; n < 4; n++ {
			at(float64(n) + 0.8)
			inv := h.begin()
			at(float64(n) + 1.2)
			h.end(op{"kind": "Advance", "d": 1}, inv)
		}
	}()
	scan := func(slowUntil float64) {
		calls := []string{}
		exports := []any{}
		inv := h.begin()
		err := p.A.ForAllExpiredFlowRecordsDo(func(k intermediate.FlowKey, rec *intermediate.AggregationFlowRecord) error {
			n := agg.KeyName(k)
			calls = append(calls, n)
			exports = append(exports, exportProj(n, rec, p))
			if slowUntil > 0 {
				at(slowUntil) // a slow export: the scan is still running when the next unit has begun
			}
			return p.A.ResetStatAndThroughputElementsInRecord(rec.Record)
		})
		h.end(op{"kind": "Scan", "fail": []string{}, "calls": calls, "exports": exports, "err": err != nil}, inv)
	}
	at(0.25)
	ingest(s1.next(r, false))
	at(1.25)
	ingest(s2.next(r, false))
	ingest(s1.next(r, false))
	wg.Add(2)
	go func() { defer wg.Done(); at(2.75); scan(3.6) }() // A: k1's active deadline (2.25) has passed, k2's (3.25) has not
	go func() { defer wg.Done(); at(3.4); scan(0) }()    // B: invoked in unit 3, k2's deadline has passed
	wg.Wait()
	at(4.4)
	inv := h.begin()
	n := p.A.GetNumFlows()
	h.end(op{"kind": "NumFlows", "n": int(n)}, inv)
	inv = h.begin()
	h.end(op{"kind": "GetAll", "flows": flowList(p)}, inv)
	if late || time.Since(t0) > 44*U/10+150*time.Millisecond {
		return nil, 0
	}
	sort.SliceStable(h.ops, func(i, j int) bool {
		ri, rj := h.ops[i]["ret"].(int64), h.ops[j]["ret"].(int64)
		if ri != rj {
			return ri > rj
		}
		return h.ops[i]["inv"].(int64) > h.ops[j]["inv"].(int64)
	})
	return op{"ops": h.ops, "producers": 1, "pool": false, "undisciplined": false, "realtime": true}, len(h.ops)
}

// lackingHistory: a held single-stream flow is offered records that lack a configured element (refused with an
// error, or ignored when not newer) while another flow is being fed and queries run: everything still returns.
func lackingHistory(r *rand.Rand) (op, int) {
	p := agg.New(2, 3, 1, 1)
	h := &hist{}
	s1 := &stream{key: "k1", kind: "intra", end: 1000, start: 1000, vals: make([]int, 6)}
	s2 := &stream{key: "k2", kind: "intra", end: 1005, start: 1005, vals: make([]int, 6)}
	ingest := func(rec agg.Rec) {
		kind := "Ingest"
		if rec.Lacking {
			kind = "IngestLacking"
		}
		inv := h.begin()
		err := p.A.AggregateMsgByFlowKey(agg.BuildMessage(rec))
		h.end(op{"kind": kind, "r": rec, "err": err != nil}, inv)
	}
	for i := 0; i < 2; i++ { // the flow is held before anything else happens
		ingest(s1.next(r, false))
	}
	var wg sync.WaitGroup
	wg.Add(3)
	seeds := []int64{r.Int63(), r.Int63(), r.Int63()}
	go func() { // stream 1: normal, lacking (newer: refused), lacking (not newer: ignored), normal ...
		defer wg.Done()
		rr := rand.New(rand.NewSource(seeds[0]))
		for i := 0; i < 6; i++ {
			perturb(rr)
			switch i % 3 {
			case 1:
				rec := s1.next(rr, false)
				rec.Lacking = true
				ingest(rec)
			case 2:
				rec := s1.next(rr, true)
				rec.Lacking = true
				ingest(rec)
			default:
				ingest(s1.next(rr, false))
			}
		}
	}()
	go func() {
		defer wg.Done()
		rr := rand.New(rand.NewSource(seeds[1]))
		for i := 0; i < 5; i++ {
			perturb(rr)
			ingest(s2.next(rr, false))
		}
	}()
	go func() {
		defer wg.Done()
		rr := rand.New(rand.NewSource(seeds[2]))
		for i := 0; i < 5; i++ {
			perturb(rr)
			time.Sleep(time.Duration(rr.Intn(200)) * time.Microsecond)
			inv := h.begin()
			n := p.A.GetNumFlows()
			h.end(op{"kind": "NumFlows", "n": int(n)}, inv)
		}
	}()
	joined := make(chan struct{})
	go func() { wg.Wait(); close(joined) }()
	select {
	case <-joined:
	case <-time.After(20 * time.Second):
		ret := h.clock.Add(1)
		h.mu.Lock()
		h.ops = append(h.ops, op{"kind": "Hang", "inv": ret, "ret": ret + 1, "detail": "operations did not return within 20 s (deadlock)"})
		hung := op{"ops": h.ops, "producers": 2, "pool": false, "undisciplined": false, "hung": true}
		n := len(h.ops)
		h.mu.Unlock()
		return hung, n
	}
	inv := h.begin()
	h.end(op{"kind": "GetAll", "flows": flowList(p)}, inv)
	sort.SliceStable(h.ops, func(i, j int) bool {
		ri, rj := h.ops[i]["ret"].(int64), h.ops[j]["ret"].(int64)
		if ri != rj {
			return ri > rj
		}
		return h.ops[i]["inv"].(int64) > h.ops[j]["inv"].(int64)
	})
	return op{"ops": h.ops, "producers": 2, "pool": false, "undisciplined": false, "lacking": true}, len(h.ops)
}

func main() {
	flag.Parse()
	thorough := *tier == "thorough"
	registry.LoadRegistry()
	f, err := os.Create(*out)
	if err != nil {
		panic(err)
	}
	r := rand.New(rand.NewSource(*seed))
	n := 120
	if thorough {
		n = 1500
	}
	dist := map[uint64]bool{}
	total := 0
	for i := 0; i < n; i++ {
		runtime.GOMAXPROCS([]int{2, 4, 16}[r.Intn(3)])
		nProd := []int{1, 2, 4, 8, 16}[r.Intn(5)]
		pool := i%4 == 3
		hst, nops := runHistory(r, nProd, pool, i%5 == 4 && !pool)
		total += nops
		b, err := json.Marshal(hst)
		if err != nil {
			panic(err)
		}
		hh := fnv.New64a()
		hh.Write(b)
		dist[hh.Sum64()] = true
		f.Write(b)
		f.Write([]byte("\n"))
	}
	// records lacking a configured element, offered to a held flow while other work goes on
	nl := 6
	if thorough {
		nl = 60
	}
	for i := 0; i < nl; i++ {
		hst, nops := lackingHistory(r)
		total += nops
		n++
		b, _ := json.Marshal(hst)
		f.Write(b)
		f.Write([]byte("\n"))
	}
	// real-time family: a deadline passes while a scan is running (several at once: they only sleep)
	nrt := 3
	if thorough {
		nrt = 12
	}
	runtime.GOMAXPROCS(16)
	type res struct {
		h op
		n int
	}
	rch := make(chan res, nrt)
	for i := 0; i < nrt; i++ {
		sd := r.Int63()
		go func() { hh, nn := realTimeHistory(rand.New(rand.NewSource(sd))); rch <- res{hh, nn} }()
	}
	discarded := 0
	for i := 0; i < nrt; i++ {
		x := <-rch
		if x.n == 0 {
			discarded++
			continue
		}
		total += x.n
		n++
		b, _ := json.Marshal(x.h)
		f.Write(b)
		f.Write([]byte("\n"))
	}
	f.Close()
	vt.PrintSummary(vt.Summary{Events: total, Traces: n, Evaluations: total, Distinct: len(dist), Extra: map[string]any{"realtime_discarded_late": discarded}})
}
