//go:build verif

// Package coll adapts a real CollectingProcess for in-process driving: Decode(bytes) with panic
// capture and a watchdog, and projection of delivered messages onto the abstract trace vocabulary.
package coll

import (
	"fmt"
	"runtime"
	"runtime/debug"
	"time"

	"github.com/vmware/go-ipfix/pkg/collector"
	"github.com/vmware/go-ipfix/pkg/entities"

	"verif/harness/absv"
	"verif/harness/vt"
)

type C struct {
	CP           *collector.CollectingProcess
	Timeout      time.Duration
	Addr         string
	MeasureAlloc bool
	AllocLimit   uint64
}

func New(proto string, mode collector.DecodingMode, ttl uint32, clk collector.VerifClock) (*C, error) {
	in := collector.CollectorInput{Address: "127.0.0.1:0", Protocol: proto, MaxBufferSize: 65535, TemplateTTL: ttl, DecodingMode: mode}
	var cp *collector.CollectingProcess
	var err error
	if clk != nil {
		cp, err = collector.VerifNewCollectingProcess(in, clk)
	} else {
		cp, err = collector.InitCollectingProcess(in)
	}
	if err != nil {
		return nil, err
	}
	return &C{CP: cp, Timeout: 3 * time.Second, Addr: "127.0.0.1:4739", AllocLimit: 48 << 20}, nil
}

type Outcome struct {
	Kind  string // Err | Tmpl | Data | Panic | Hang | Alloc
	Msg   *entities.Message
	Err   error
	Panic string
}

type result struct {
	msg *entities.Message
	err error
	pan string
}

// Decode feeds one message to decodePacket and returns what happened.
func (c *C) Decode(b []byte) Outcome {
	if !c.MeasureAlloc {
		return c.decode(b)
	}
	var m0, m1 runtime.MemStats
	runtime.ReadMemStats(&m0)
	o := c.decode(b)
	runtime.ReadMemStats(&m1)
	// bounded memory: decoding one message (<= 64 KiB) must not allocate more than AllocLimit bytes
	if d := m1.TotalAlloc - m0.TotalAlloc; d > c.AllocLimit && o.Kind != "Hang" {
		return Outcome{Kind: "Alloc", Panic: fmt.Sprintf("decoding %d bytes allocated %d bytes", len(b), d)}
	}
	return o
}

func (c *C) decode(b []byte) Outcome {
	done := make(chan result, 1)
	go func() {
		defer func() {
			if r := recover(); r != nil {
				done <- result{pan: fmt.Sprintf("%v\n%s", r, debug.Stack())}
			}
		}()
		m, err := c.CP.VerifDecodePacket(b, c.Addr)
		done <- result{msg: m, err: err}
	}()
	var delivered *entities.Message
	timer := time.NewTimer(c.Timeout)
	defer timer.Stop()
	for {
		select {
		case m := <-c.CP.GetMsgChan():
			delivered = m
		case r := <-done:
			if r.pan != "" {
				return Outcome{Kind: "Panic", Panic: r.pan}
			}
			if r.err != nil {
				return Outcome{Kind: "Err", Err: r.err}
			}
			if delivered == nil {
				// decodePacket returned a message without delivering it: cannot happen
				return Outcome{Kind: "Panic", Panic: "returned message was not delivered on the channel"}
			}
			if delivered.GetSet().GetSetType() == entities.Template {
				return Outcome{Kind: "Tmpl", Msg: delivered}
			}
			return Outcome{Kind: "Data", Msg: delivered}
		case <-timer.C:
			return Outcome{Kind: "Hang"}
		}
	}
}

// ProjectTemplate returns (template id, fields) of a delivered template message.
func ProjectTemplate(m *entities.Message) (int, []absv.Field) {
	recs := m.GetSet().GetRecords()
	if len(recs) == 0 {
		return -1, nil
	}
	r := recs[0]
	fields := make([]absv.Field, 0)
	for _, e := range r.GetOrderedElementList() {
		fields = append(fields, absv.FieldOf(e.GetInfoElement()))
	}
	return int(r.GetTemplateID()), fields
}

// ProjectData returns the records of a delivered data message as abstract values, plus the
// fields (information elements) each record carries.
func ProjectData(m *entities.Message) (recs [][][]int, fields [][]absv.Field, err error) {
	defer func() {
		if r := recover(); r != nil {
			err = fmt.Errorf("projection panic: %v", r)
		}
	}()
	recs = make([][][]int, 0)
	fields = make([][]absv.Field, 0)
	for _, r := range m.GetSet().GetRecords() {
		vals := make([][]int, 0)
		fs := make([]absv.Field, 0)
		for _, e := range r.GetOrderedElementList() {
			v, verr := absv.ValueOf(e)
			if verr != nil {
				return nil, nil, verr
			}
			vals = append(vals, v)
			fs = append(fs, absv.FieldOf(e.GetInfoElement()))
		}
		recs = append(recs, vals)
		fields = append(fields, fs)
	}
	return recs, fields, nil
}

// Header projects the message header.
func Header(m *entities.Message) vt.Ev {
	return vt.Ev{"version": int(m.GetVersion()), "length": int(m.GetMessageLen()),
		"time": vt.Limbs(m.GetExportTime()), "seq": vt.Limbs(m.GetSequenceNum()), "dom": vt.Limbs(m.GetObsDomainID())}
}
