// Package vt writes NDJSON traces: one JSON object per event, in causal order.
package vt

import (
	"bufio"
	"encoding/json"
	"fmt"
	"os"
	"reflect"
	"strconv"
	"sync"
)

// norm replaces nil slices (JSON null, which the TLA+ Json module cannot read) by empty ones.
func norm(v any) any {
	if v == nil {
		return []int{}
	}
	rv := reflect.ValueOf(v)
	switch rv.Kind() {
	case reflect.Slice:
		if rv.IsNil() || rv.Len() == 0 {
			return []int{}
		}
		if rv.Type().Elem().Kind() == reflect.Int {
			if a, ok := v.([]int); ok {
				return Ints(a)
			}
			return v
		}
		out := make([]any, rv.Len())
		for i := range out {
			out[i] = norm(rv.Index(i).Interface())
		}
		return out
	case reflect.Map:
		if m, ok := v.(Ev); ok {
			for k, x := range m {
				m[k] = norm(x)
			}
			return m
		}
		if m, ok := v.(map[string]any); ok {
			for k, x := range m {
				m[k] = norm(x)
			}
			return m
		}
	}
	return v
}

type Ev map[string]any

type Writer struct {
	mu    sync.Mutex
	f     *os.File
	w     *bufio.Writer
	n     int
	tr    int
	err   error
	bytes int64
}

func Open(path string) (*Writer, error) {
	f, err := os.Create(path)
	if err != nil {
		return nil, err
	}
	return &Writer{f: f, w: bufio.NewWriterSize(f, 1<<20)}, nil
}

// Emit appends one event. Safe for concurrent use; the file order is the order of Emit calls.
func (t *Writer) Emit(ev Ev) {
	t.mu.Lock()
	defer t.mu.Unlock()
	t.emitLocked(ev)
}

func (t *Writer) emitLocked(ev Ev) {
	if _, ok := ev["tr"]; !ok {
		ev["tr"] = t.tr
	}
	norm(ev)
	b, err := json.Marshal(ev)
	if err != nil {
		t.err = err
		return
	}
	t.w.Write(b)
	t.w.WriteByte('\n')
	t.w.Flush() // a crash of the code under test must not lose the events that led to it
	t.n++
	if t.bytes += int64(len(b)) + 1; t.bytes > 6<<30 {
		// a driver that logs without end (code under test spinning): the disk is not ours to fill
		fmt.Fprintln(os.Stderr, "vt: trace larger than 6 GB, giving up (machinery limit, not a verdict)")
		os.Exit(4)
	}
}

// Reset starts a new trace (a new "tr" id) with a Reset event carrying the given fields.
func (t *Writer) Reset(ev Ev) int {
	t.mu.Lock()
	defer t.mu.Unlock()
	t.tr++
	if ev == nil {
		ev = Ev{}
	}
	ev["e"] = "Reset"
	ev["tr"] = t.tr
	t.emitLocked(ev)
	return t.tr
}

func (t *Writer) Events() int { t.mu.Lock(); defer t.mu.Unlock(); return t.n }
func (t *Writer) Traces() int { t.mu.Lock(); defer t.mu.Unlock(); return t.tr }

func (t *Writer) Close() error {
	t.mu.Lock()
	defer t.mu.Unlock()
	if err := t.w.Flush(); err != nil {
		return err
	}
	if t.err != nil {
		return t.err
	}
	return t.f.Close()
}

// Ints is a []int with a fast JSON encoding (byte strings of 64 kB are logged thousands of times).
type Ints []int

func (a Ints) MarshalJSON() ([]byte, error) {
	buf := make([]byte, 0, 4*len(a)+2)
	buf = append(buf, '[')
	for i, x := range a {
		if i > 0 {
			buf = append(buf, ',')
		}
		buf = strconv.AppendInt(buf, int64(x), 10)
	}
	return append(buf, ']'), nil
}

// B converts a byte slice into a JSON array of numbers (encoding/json would base64 a []byte).
func B(b []byte) Ints {
	out := make(Ints, len(b))
	for i, x := range b {
		out[i] = int(x)
	}
	return out
}

// Limbs splits a uint32 into two 16-bit limbs <<hi, lo>> (TLC integers are 32-bit signed).
func Limbs(x uint32) []int { return []int{int(x >> 16), int(x & 0xffff)} }

// Summary is what a driver prints as its last stdout line for the runner.
type Summary struct {
	Events      int            `json:"events"`
	Traces      int            `json:"traces"`
	Evaluations int            `json:"evaluations"`
	Distinct    int            `json:"distinct_nontrivial"`
	Extra       map[string]any `json:"extra,omitempty"`
}

func PrintSummary(s Summary) {
	b, _ := json.Marshal(s)
	os.Stdout.WriteString("SUMMARY " + string(b) + "\n")
}
