// Package absv projects go-ipfix values onto the abstract values of spec/Wire.tla and contains the
// harness's own (library-independent) encoders used only to BUILD inputs for the collector.
// Abstract value = base-256 digits, most significant first, at the element's width; raw bytes for
// strings / octet arrays; [1] / [0] for booleans.
package absv

import (
	"fmt"
	"math"

	"github.com/vmware/go-ipfix/pkg/entities"
)

var typeNames = map[entities.IEDataType]string{
	0: "octetArray", 1: "unsigned8", 2: "unsigned16", 3: "unsigned32", 4: "unsigned64",
	5: "signed8", 6: "signed16", 7: "signed32", 8: "signed64", 9: "float32", 10: "float64",
	11: "boolean", 12: "macAddress", 13: "string", 14: "dateTimeSeconds", 15: "dateTimeMilliseconds",
	16: "dateTimeMicroseconds", 17: "dateTimeNanoseconds", 18: "ipv4Address", 19: "ipv6Address",
	20: "basicList", 21: "subTemplateList", 22: "subTemplateMultiList", 255: "invalid",
}

func TypeName(t entities.IEDataType) string {
	if s, ok := typeNames[t]; ok {
		return s
	}
	return fmt.Sprintf("type%d", t)
}

// Field is the JSON form of a Wire.tla field specifier.
type Field struct {
	ID   int    `json:"id"`
	Ent  int    `json:"ent"`  // -1 when the number does not fit a TLC integer; EntB is authoritative
	EntB []int  `json:"entb"` // enterprise number, 4 bytes
	Len  int    `json:"len"`
	Type string `json:"type"`
	Name string `json:"name"`
}

func FieldOf(ie *entities.InfoElement) Field {
	ent := int(ie.EnterpriseId)
	if ie.EnterpriseId >= 1<<31 {
		ent = -1
	}
	return Field{ID: int(ie.ElementId), Ent: ent, EntB: Digits(uint64(ie.EnterpriseId), 4), Len: int(ie.Len), Type: TypeName(ie.DataType), Name: ie.Name}
}

func FieldsOf(ies []*entities.InfoElement) []Field {
	out := make([]Field, len(ies))
	for i, ie := range ies {
		out[i] = FieldOf(ie)
	}
	return out
}

// Digits returns the w most-significant-first base-256 digits of x.
func Digits(x uint64, w int) []int {
	out := make([]int, w)
	for i := 0; i < w; i++ {
		out[i] = int((x >> (8 * uint(w-1-i))) & 0xff)
	}
	return out
}

func bytesToInts(b []byte) []int {
	out := make([]int, len(b))
	for i, x := range b {
		out[i] = int(x)
	}
	return out
}

// ValueOf reads an element's value through its typed getter and returns the abstract value.
// It never looks at encoded buffers. Panics of the getters propagate (caller recovers).
func ValueOf(e entities.InfoElementWithValue) ([]int, error) {
	switch e.GetDataType() {
	case entities.OctetArray:
		return bytesToInts(e.GetOctetArrayValue()), nil
	case entities.Unsigned8:
		return Digits(uint64(e.GetUnsigned8Value()), 1), nil
	case entities.Unsigned16:
		return Digits(uint64(e.GetUnsigned16Value()), 2), nil
	case entities.Unsigned32, entities.DateTimeSeconds:
		return Digits(uint64(e.GetUnsigned32Value()), 4), nil
	case entities.Unsigned64, entities.DateTimeMilliseconds:
		return Digits(e.GetUnsigned64Value(), 8), nil
	case entities.Signed8:
		return Digits(uint64(uint8(e.GetSigned8Value())), 1), nil
	case entities.Signed16:
		return Digits(uint64(uint16(e.GetSigned16Value())), 2), nil
	case entities.Signed32:
		return Digits(uint64(uint32(e.GetSigned32Value())), 4), nil
	case entities.Signed64:
		return Digits(uint64(e.GetSigned64Value()), 8), nil
	case entities.Float32:
		return Digits(uint64(math.Float32bits(e.GetFloat32Value())), 4), nil
	case entities.Float64:
		return Digits(math.Float64bits(e.GetFloat64Value()), 8), nil
	case entities.Boolean:
		if e.GetBooleanValue() {
			return []int{1}, nil
		}
		return []int{0}, nil
	case entities.MacAddress:
		return bytesToInts(e.GetMacAddressValue()), nil
	case entities.Ipv4Address:
		ip := e.GetIPAddressValue()
		if v4 := ip.To4(); v4 != nil && len(ip) != 4 {
			// a 16-byte representation of an IPv4 address denotes the same address
			return bytesToInts(v4), nil
		}
		return bytesToInts(ip), nil
	case entities.Ipv6Address:
		return bytesToInts(e.GetIPAddressValue()), nil
	case entities.String:
		return bytesToInts([]byte(e.GetStringValue())), nil
	}
	return nil, fmt.Errorf("unsupported data type %d", e.GetDataType())
}

// ---------------------------------------------------------------------------------------------
// Input builders (harness-owned, used to feed the collector; never used as an oracle).

func PutU16(b []byte, x int) []byte { return append(b, byte(x>>8), byte(x)) }
func PutU32(b []byte, x uint32) []byte {
	return append(b, byte(x>>24), byte(x>>16), byte(x>>8), byte(x))
}

// Spec is a raw field specifier as it goes on the wire.
type Spec struct {
	ID  int
	Len int
	Ent uint32
}

func TemplateBody(tid int, specs []Spec) []byte {
	b := PutU16(nil, tid)
	b = PutU16(b, len(specs))
	for _, s := range specs {
		if s.Ent != 0 {
			b = PutU16(b, s.ID|0x8000)
			b = PutU16(b, s.Len)
			b = PutU32(b, s.Ent)
		} else {
			b = PutU16(b, s.ID)
			b = PutU16(b, s.Len)
		}
	}
	return b
}

// Message wraps a set body into a full IPFIX message with correct length fields.
func Message(exportTime, seq, dom uint32, setID int, body []byte) []byte {
	b := PutU16(nil, 10)
	b = PutU16(b, 20+len(body))
	b = PutU32(b, exportTime)
	b = PutU32(b, seq)
	b = PutU32(b, dom)
	b = PutU16(b, setID)
	b = PutU16(b, 4+len(body))
	return append(b, body...)
}

// VarPrefix is the RFC 7011 variable-length prefix.
func VarPrefix(n int) []byte {
	if n < 255 {
		return []byte{byte(n)}
	}
	return []byte{255, byte(n >> 8), byte(n)}
}

// EncodeAbs is the harness's own value encoder (input builder only).
func EncodeAbs(typ string, length int, abs []int) []byte {
	if typ == "boolean" {
		if len(abs) == 1 && abs[0] == 1 {
			return []byte{1}
		}
		return []byte{2}
	}
	b := make([]byte, 0, len(abs)+3)
	if length == 65535 {
		b = append(b, VarPrefix(len(abs))...)
	}
	for _, x := range abs {
		b = append(b, byte(x))
	}
	return b
}

// SpecOf is the wire specifier of an information element.
func SpecOf(ie *entities.InfoElement) Spec {
	return Spec{ID: int(ie.ElementId), Len: int(ie.Len), Ent: ie.EnterpriseId}
}
