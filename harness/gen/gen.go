// Package gen builds real go-ipfix values from abstract values (the inverse of absv.ValueOf) and
// generates abstract values per data type. All conversions use plain shifts; nothing here calls
// the library's encoders.
package gen

import (
	"fmt"
	"math"
	"math/rand"
	"net"

	"github.com/vmware/go-ipfix/pkg/entities"
	"github.com/vmware/go-ipfix/pkg/registry"
)

func num(abs []int) uint64 {
	var x uint64
	for _, d := range abs {
		x = x<<8 | uint64(d&0xff)
	}
	return x
}

func raw(abs []int) []byte {
	b := make([]byte, len(abs))
	for i, d := range abs {
		b[i] = byte(d)
	}
	return b
}

// Elem builds a typed element holding the abstract value abs.
func Elem(ie *entities.InfoElement, abs []int) (entities.InfoElementWithValue, error) {
	switch ie.DataType {
	case entities.OctetArray:
		return entities.NewOctetArrayInfoElement(ie, raw(abs)), nil
	case entities.Unsigned8:
		return entities.NewUnsigned8InfoElement(ie, uint8(num(abs))), nil
	case entities.Unsigned16:
		return entities.NewUnsigned16InfoElement(ie, uint16(num(abs))), nil
	case entities.Unsigned32:
		return entities.NewUnsigned32InfoElement(ie, uint32(num(abs))), nil
	case entities.Unsigned64:
		return entities.NewUnsigned64InfoElement(ie, num(abs)), nil
	case entities.Signed8:
		return entities.NewSigned8InfoElement(ie, int8(uint8(num(abs)))), nil
	case entities.Signed16:
		return entities.NewSigned16InfoElement(ie, int16(uint16(num(abs)))), nil
	case entities.Signed32:
		return entities.NewSigned32InfoElement(ie, int32(uint32(num(abs)))), nil
	case entities.Signed64:
		return entities.NewSigned64InfoElement(ie, int64(num(abs))), nil
	case entities.Float32:
		return entities.NewFloat32InfoElement(ie, math.Float32frombits(uint32(num(abs)))), nil
	case entities.Float64:
		return entities.NewFloat64InfoElement(ie, math.Float64frombits(num(abs))), nil
	case entities.Boolean:
		return entities.NewBoolInfoElement(ie, abs[0] == 1), nil
	case entities.MacAddress:
		return entities.NewMacAddressInfoElement(ie, net.HardwareAddr(raw(abs))), nil
	case entities.String:
		return entities.NewStringInfoElement(ie, string(raw(abs))), nil
	case entities.DateTimeSeconds:
		return entities.NewDateTimeSecondsInfoElement(ie, uint32(num(abs))), nil
	case entities.DateTimeMilliseconds:
		return entities.NewDateTimeMillisecondsInfoElement(ie, num(abs)), nil
	case entities.Ipv4Address, entities.Ipv6Address:
		return entities.NewIPAddressInfoElement(ie, net.IP(raw(abs))), nil
	}
	return nil, fmt.Errorf("unsupported type %d", ie.DataType)
}

// Set gives an existing element the abstract value abs through the setter of its type.
func Set(e entities.InfoElementWithValue, abs []int) {
	switch e.GetInfoElement().DataType {
	case entities.OctetArray:
		e.SetOctetArrayValue(raw(abs))
	case entities.Unsigned8:
		e.SetUnsigned8Value(uint8(num(abs)))
	case entities.Unsigned16:
		e.SetUnsigned16Value(uint16(num(abs)))
	case entities.Unsigned32:
		e.SetUnsigned32Value(uint32(num(abs)))
	case entities.Unsigned64:
		e.SetUnsigned64Value(num(abs))
	case entities.Signed8:
		e.SetSigned8Value(int8(uint8(num(abs))))
	case entities.Signed16:
		e.SetSigned16Value(int16(uint16(num(abs))))
	case entities.Signed32:
		e.SetSigned32Value(int32(uint32(num(abs))))
	case entities.Signed64:
		e.SetSigned64Value(int64(num(abs)))
	case entities.Float32:
		e.SetFloat32Value(math.Float32frombits(uint32(num(abs))))
	case entities.Float64:
		e.SetFloat64Value(math.Float64frombits(num(abs)))
	case entities.Boolean:
		e.SetBooleanValue(abs[0] == 1)
	case entities.MacAddress:
		e.SetMacAddressValue(net.HardwareAddr(raw(abs)))
	case entities.String:
		e.SetStringValue(string(raw(abs)))
	case entities.DateTimeSeconds:
		e.SetUnsigned32Value(uint32(num(abs)))
	case entities.DateTimeMilliseconds:
		e.SetUnsigned64Value(num(abs))
	case entities.Ipv4Address, entities.Ipv6Address:
		e.SetIPAddressValue(net.IP(raw(abs)))
	}
}

// Supported tells whether the library can encode/decode the element's type.
func Supported(ie *entities.InfoElement) bool {
	switch ie.DataType {
	case entities.OctetArray, entities.Unsigned8, entities.Unsigned16, entities.Unsigned32, entities.Unsigned64,
		entities.Signed8, entities.Signed16, entities.Signed32, entities.Signed64, entities.Float32, entities.Float64,
		entities.Boolean, entities.MacAddress, entities.String, entities.DateTimeSeconds, entities.DateTimeMilliseconds,
		entities.Ipv4Address, entities.Ipv6Address:
		return true
	}
	return false
}

// NonUTF8 lets Abs put bytes that are not valid UTF-8 into string values (off for runs whose observation
// goes through a text rendering, e.g. the JSON record mode).
var NonUTF8 = false

// Width is the fixed width of a value of ie, or -1 for variable length.
func Width(ie *entities.InfoElement) int {
	if ie.Len == entities.VariableLength || ie.DataType == entities.String {
		return -1
	}
	return int(ie.Len)
}

var floatBits32 = []uint64{0, 0x80000000, 0x7f800000, 0xff800000, 0x7fc00000, 0x7fc00001, 0xffc12345, 0x00000001, 0x007fffff, 0x00800000, 0x7f7fffff, 0x3f800000, 0x7f800001}
var floatBits64 = []uint64{0, 0x8000000000000000, 0x7ff0000000000000, 0xfff0000000000000, 0x7ff8000000000000, 0x7ff8000000000001, 0xfff8123456789abc, 1, 0x000fffffffffffff, 0x0010000000000000, 0x7fefffffffffffff, 0x3ff0000000000000, 0x7ff0000000000001}

func digits(x uint64, w int) []int {
	out := make([]int, w)
	for i := 0; i < w; i++ {
		out[i] = int((x >> (8 * uint(w-1-i))) & 0xff)
	}
	return out
}

func randBytes(r *rand.Rand, n int) []int {
	out := make([]int, n)
	for i := range out {
		out[i] = r.Intn(256)
	}
	return out
}

// VarLens are the interesting lengths of variable-length values.
var VarLens = []int{0, 1, 2, 253, 254, 255, 256, 257, 1000}

// Abs draws an abstract value for ie: boundaries with high probability, random otherwise.
// maxVar bounds the length of variable-length values.
func Abs(r *rand.Rand, ie *entities.InfoElement, maxVar int) []int {
	w := Width(ie)
	switch ie.DataType {
	case entities.Boolean:
		return []int{r.Intn(2)}
	case entities.String, entities.OctetArray:
		if w >= 0 {
			return randBytes(r, w)
		}
		var n int
		if r.Intn(3) == 0 {
			n = VarLens[r.Intn(len(VarLens))]
		} else {
			n = r.Intn(40)
		}
		if n > maxVar {
			n = maxVar
		}
		b := randBytes(r, n)
		if ie.DataType == entities.String {
			for i := range b {
				b[i] = 32 + b[i]%95
			}
			// strings are arbitrary octets on the wire: NUL bytes at the end, at the start, everywhere
			switch r.Intn(12) {
			case 0:
				for i := n - 1; i >= 0 && i >= n-1-r.Intn(3); i-- {
					b[i] = 0
				}
			case 1:
				if n > 0 {
					b[0] = 0
				}
			case 2:
				for i := range b {
					b[i] = 0
				}
			case 3, 4:
				// strings are octets, not text: bytes that are no valid UTF-8 (a lone continuation byte, 0xff, a name
				// cut inside a multi-byte character, Latin-1)
				if NonUTF8 && n > 0 {
					bad := [][]byte{{0x80}, {0xff}, {0xe2, 0x82}, {0xe9}, {0xc3}, {0xf0, 0x9f, 0x98}}[r.Intn(6)]
					at := r.Intn(n)
					if r.Intn(2) == 0 {
						at = n - len(bad) // at the very end
						if at < 0 {
							at = 0
						}
					}
					for k := 0; k < len(bad) && at+k < n; k++ {
						b[at+k] = int(bad[k])
					}
				}
			}
		}
		return b
	case entities.Float32:
		if r.Intn(2) == 0 {
			return digits(floatBits32[r.Intn(len(floatBits32))], 4)
		}
		return randBytes(r, 4)
	case entities.Float64:
		if r.Intn(2) == 0 {
			return digits(floatBits64[r.Intn(len(floatBits64))], 8)
		}
		return randBytes(r, 8)
	}
	if ie.DataType == entities.Ipv6Address && r.Intn(4) == 0 {
		// addresses with an embedded IPv4 address: IPv4-mapped, IPv4-compatible, NAT64
		b := make([]int, 16)
		switch r.Intn(3) {
		case 0:
			b[10], b[11] = 0xff, 0xff
		case 2:
			b[1], b[2], b[3] = 0x64, 0xff, 0x9b
		}
		for i := 12; i < 16; i++ {
			b[i] = r.Intn(256)
		}
		return b
	}
	// integers, dates, addresses, MACs: fixed width
	switch r.Intn(6) {
	case 0:
		return make([]int, w)
	case 1:
		b := make([]int, w)
		for i := range b {
			b[i] = 255
		}
		return b
	case 2: // sign boundary 0x80 00..
		b := make([]int, w)
		b[0] = 0x80
		return b
	case 3: // 0x7f ff..
		b := make([]int, w)
		for i := range b {
			b[i] = 255
		}
		b[0] = 0x7f
		return b
	case 4: // 1
		b := make([]int, w)
		b[w-1] = 1
		return b
	}
	return randBytes(r, w)
}

// Zero is the all-zero / empty value of ie's type.
func Zero(ie *entities.InfoElement) []int {
	if w := Width(ie); w > 0 && ie.DataType != entities.Boolean {
		return make([]int, w)
	}
	if ie.DataType == entities.Boolean {
		return []int{0}
	}
	return []int{}
}

// CustomEnt is the enterprise number of the user-registered registry used by the harness.
const CustomEnt uint32 = 77777

// RegisterCustom registers one element of every supported type (plus fixed-length octet arrays
// and strings) under CustomEnt. Call after registry.LoadRegistry().
func RegisterCustom() ([]*entities.InfoElement, error) {
	if err := registry.InitNewRegistry(CustomEnt); err != nil {
		return nil, err
	}
	type d struct {
		name string
		id   uint16
		t    entities.IEDataType
		l    uint16
	}
	defs := []d{
		{"vOctetVar", 1, entities.OctetArray, 65535}, {"vU8", 2, entities.Unsigned8, 1}, {"vU16", 3, entities.Unsigned16, 2},
		{"vU32", 4, entities.Unsigned32, 4}, {"vU64", 5, entities.Unsigned64, 8}, {"vS8", 6, entities.Signed8, 1},
		{"vS16", 7, entities.Signed16, 2}, {"vS32", 8, entities.Signed32, 4}, {"vS64", 9, entities.Signed64, 8},
		{"vF32", 10, entities.Float32, 4}, {"vF64", 11, entities.Float64, 8}, {"vBool", 12, entities.Boolean, 1},
		{"vMac", 13, entities.MacAddress, 6}, {"vString", 14, entities.String, 65535}, {"vDtS", 15, entities.DateTimeSeconds, 4},
		{"vDtMs", 16, entities.DateTimeMilliseconds, 8}, {"vIP4", 17, entities.Ipv4Address, 4}, {"vIP6", 18, entities.Ipv6Address, 16},
	}
	for l := 1; l <= 64; l++ {
		defs = append(defs, d{fmt.Sprintf("vOctet%d", l), uint16(100 + l), entities.OctetArray, uint16(l)})
	}
	defs = append(defs, d{"vOctet300", 400, entities.OctetArray, 300})
	defs = append(defs, d{"vStringFixed8", 401, entities.String, 8}) // a string element declaring a fixed length (builder-level runs only)
	out := make([]*entities.InfoElement, 0, len(defs))
	for _, x := range defs {
		ie := entities.NewInfoElement(x.name, x.id, x.t, CustomEnt, x.l)
		if err := registry.PutInfoElement(*ie, CustomEnt); err != nil {
			return nil, err
		}
		p, err := registry.GetInfoElementFromID(x.id, CustomEnt)
		if err != nil {
			return nil, err
		}
		out = append(out, p)
	}
	return out, nil
}

// AllRegistry enumerates every element of the shipped registries (IANA, reverse, Antrea).
func AllRegistry() []*entities.InfoElement {
	out := make([]*entities.InfoElement, 0, 1024)
	for _, ent := range []uint32{registry.IANAEnterpriseID, registry.IANAReversedEnterpriseID, registry.AntreaEnterpriseID} {
		for id := 0; id < 32768; id++ {
			if ie, err := registry.GetInfoElementFromID(uint16(id), ent); err == nil && ie != nil {
				out = append(out, ie)
			}
		}
	}
	return out
}
