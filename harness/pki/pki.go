// Package pki mints throw-away certificates for the TLS / DTLS runs (the repository's static test
// certificates are expired).
package pki

import (
	"crypto/ecdsa"
	"crypto/elliptic"
	"crypto/rand"
	"crypto/x509"
	"crypto/x509/pkix"
	"encoding/pem"
	"math/big"
	"net"
	"time"
)

type CA struct {
	Cert    *x509.Certificate
	Key     *ecdsa.PrivateKey
	CertPEM []byte
}

type Leaf struct {
	CertPEM []byte
	KeyPEM  []byte
}

var serial = big.NewInt(1000)

func next() *big.Int { serial = new(big.Int).Add(serial, big.NewInt(1)); return serial }

func NewCA(name string) *CA {
	key, _ := ecdsa.GenerateKey(elliptic.P256(), rand.Reader)
	tpl := &x509.Certificate{SerialNumber: next(), Subject: pkix.Name{CommonName: name}, NotBefore: time.Now().Add(-time.Hour), NotAfter: time.Now().Add(24 * time.Hour),
		IsCA: true, KeyUsage: x509.KeyUsageCertSign | x509.KeyUsageDigitalSignature, BasicConstraintsValid: true}
	der, err := x509.CreateCertificate(rand.Reader, tpl, tpl, &key.PublicKey, key)
	if err != nil {
		panic(err)
	}
	cert, _ := x509.ParseCertificate(der)
	return &CA{Cert: cert, Key: key, CertPEM: pem.EncodeToMemory(&pem.Block{Type: "CERTIFICATE", Bytes: der})}
}

type Opts struct {
	DNS       []string
	IPs       []net.IP
	NotBefore time.Time
	NotAfter  time.Time
	Client    bool
	SelfSign  bool
}

// Issue mints a leaf certificate signed by ca (or self-signed).
func Issue(ca *CA, cn string, o Opts) *Leaf {
	key, _ := ecdsa.GenerateKey(elliptic.P256(), rand.Reader)
	if o.NotBefore.IsZero() {
		o.NotBefore = time.Now().Add(-time.Hour)
	}
	if o.NotAfter.IsZero() {
		o.NotAfter = time.Now().Add(12 * time.Hour)
	}
	eku := x509.ExtKeyUsageServerAuth
	if o.Client {
		eku = x509.ExtKeyUsageClientAuth
	}
	tpl := &x509.Certificate{SerialNumber: next(), Subject: pkix.Name{CommonName: cn}, NotBefore: o.NotBefore, NotAfter: o.NotAfter,
		KeyUsage: x509.KeyUsageDigitalSignature, ExtKeyUsage: []x509.ExtKeyUsage{eku}, DNSNames: o.DNS, IPAddresses: o.IPs, BasicConstraintsValid: true}
	parent, signer := ca.Cert, ca.Key
	if o.SelfSign {
		parent, signer = tpl, key
	}
	der, err := x509.CreateCertificate(rand.Reader, tpl, parent, &key.PublicKey, signer)
	if err != nil {
		panic(err)
	}
	kb, _ := x509.MarshalECPrivateKey(key)
	return &Leaf{CertPEM: pem.EncodeToMemory(&pem.Block{Type: "CERTIFICATE", Bytes: der}), KeyPEM: pem.EncodeToMemory(&pem.Block{Type: "EC PRIVATE KEY", Bytes: kb})}
}
