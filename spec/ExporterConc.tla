---------------------------- MODULE ExporterConc ----------------------------
(***************************************************************************)
(* The exporting process with its own background activity                  *)
(* (pkg/exporter/process.go), as interleaved processes:                    *)
(*   App        the application, calling SendSet from ONE goroutine        *)
(*              (two steps: sanity check + counter update, then the write) *)
(*   Refresher  UDP: on a tick, snapshot the template table under the      *)
(*              template mutex, then one SendSet (= one write) per template*)
(*   Checker    TCP: on a tick, 1-byte read with deadline; EOF => close    *)
(*   Closer(i)  CloseConnToCollector from any goroutine, any number of     *)
(*              times: isClosed.Swap(true) guards close(stopCh)+conn.Close,*)
(*              then waits for the background goroutines                   *)
(*   Peer       may close its side (TCP)                                   *)
(* Each conn.Write is atomic (one datagram / one TCP write).               *)
(***************************************************************************)
EXTENDS Integers, Sequences, FiniteSets

CONSTANTS Tids, NData, NTicks, Closers, Proto     \* Proto: "udp" | "tcp"

VARIABLES
  tmpl,        \* set of template ids in the table
  seq,         \* sequence counter (data records sent)
  wire,        \* sequence of messages written: [src, kind, tid, seq]
  app,         \* [pc, kind, tid, left]  pc: "idle" | "write" | "done"; left = sends still to do
  ref,         \* [pc, todo, ticks]      pc: "wait" | "send" | "exit"
  chk,         \* [pc, ticks]            pc: "wait" | "exit"
  swapped,     \* isClosed
  stopClosed,  \* number of times stopCh was closed (2 would be a panic)
  connClosed,  \* our side of the connection is closed
  peerClosed,
  closer,      \* Closers -> "idle" | "wait" | "done"
  results      \* history: results of application sends, in order ("ok" | "err")

ecvars == << tmpl, seq, wire, app, ref, chk, swapped, stopClosed, connClosed, peerClosed, closer, results >>

BgAlive == (IF Proto = "udp" THEN ref.pc # "exit" ELSE chk.pc # "exit")

ECInit ==
  /\ tmpl = {} /\ seq = 0 /\ wire = << >>
  /\ app = [pc |-> "idle", kind |-> "none", tid |-> 0, left |-> NData]
  /\ ref = [pc |-> IF Proto = "udp" THEN "wait" ELSE "exit", todo |-> << >>, ticks |-> NTicks]
  /\ chk = [pc |-> IF Proto = "tcp" THEN "wait" ELSE "exit", ticks |-> NTicks]
  /\ swapped = FALSE /\ stopClosed = 0 /\ connClosed = FALSE /\ peerClosed = FALSE
  /\ closer = [c \in Closers |-> "idle"] /\ results = << >>

Write(src, kind, tid, sq) == wire' = Append(wire, [src |-> src, kind |-> kind, tid |-> tid, seq |-> sq])

\* ---- application: SendSet(template tid) / SendSet(data tid, 1 record)
AppBegin(kind, tid) ==
  /\ app.pc = "idle" /\ app.left > 0
  /\ IF kind = "template"
       THEN /\ tmpl' = tmpl \cup {tid} /\ seq' = seq
            /\ app' = [app EXCEPT !.pc = "write", !.kind = kind, !.tid = tid]
            /\ UNCHANGED results
       ELSE IF tid \in tmpl
         THEN /\ seq' = seq + 1 /\ UNCHANGED << tmpl, results >>
              /\ app' = [app EXCEPT !.pc = "write", !.kind = kind, !.tid = tid]
         ELSE /\ UNCHANGED << tmpl, seq >>                                   \* sanity check fails: nothing written
              /\ results' = Append(results, "err")
              /\ app' = [app EXCEPT !.left = @ - 1]
  /\ UNCHANGED << wire, ref, chk, swapped, stopClosed, connClosed, peerClosed, closer >>
AppWrite ==
  /\ app.pc = "write"
  /\ IF connClosed
       THEN /\ results' = Append(results, "err") /\ UNCHANGED wire
       ELSE /\ Write("app", app.kind, app.tid, seq) /\ results' = Append(results, "ok")
  /\ app' = [app EXCEPT !.pc = "idle", !.left = @ - 1]
  /\ UNCHANGED << tmpl, seq, ref, chk, swapped, stopClosed, connClosed, peerClosed, closer >>

\* ---- internal close: Swap guard, close(stopCh), conn.Close
InternalClose ==
  IF swapped THEN UNCHANGED << swapped, stopClosed, connClosed >>
  ELSE swapped' = TRUE /\ stopClosed' = stopClosed + 1 /\ connClosed' = TRUE

\* ---- refresher (UDP)
SeqToSet(S) == CHOOSE s \in [1..Cardinality(S) -> S] : \A i, j \in 1..Cardinality(S) : i # j => s[i] # s[j]
RefTick ==
  /\ ref.pc = "wait" /\ ref.ticks > 0 /\ stopClosed = 0
  /\ ref' = [pc |-> "send", todo |-> SeqToSet(tmpl), ticks |-> ref.ticks - 1]      \* snapshot under the mutex
  /\ UNCHANGED << tmpl, seq, wire, app, chk, swapped, stopClosed, connClosed, peerClosed, closer, results >>
RefSend ==
  /\ ref.pc = "send"
  /\ IF ref.todo = << >>
       THEN ref' = [ref EXCEPT !.pc = "wait"] /\ UNCHANGED << wire, swapped, stopClosed, connClosed >>
       ELSE IF connClosed
         THEN /\ ref' = [ref EXCEPT !.pc = "exit"] /\ UNCHANGED wire /\ InternalClose     \* write error: close and exit
         ELSE /\ Write("ref", "template", Head(ref.todo), seq)
              /\ ref' = [ref EXCEPT !.todo = Tail(@)]
              /\ UNCHANGED << swapped, stopClosed, connClosed >>
  /\ UNCHANGED << tmpl, seq, app, chk, peerClosed, closer, results >>
RefStop ==
  /\ ref.pc = "wait" /\ stopClosed > 0
  /\ ref' = [ref EXCEPT !.pc = "exit"]
  /\ UNCHANGED << tmpl, seq, wire, app, chk, swapped, stopClosed, connClosed, peerClosed, closer, results >>

\* ---- connection checker (TCP)
ChkTick ==
  /\ chk.pc = "wait" /\ chk.ticks > 0 /\ stopClosed = 0
  /\ IF peerClosed THEN chk' = [chk EXCEPT !.pc = "exit"] /\ InternalClose
     ELSE chk' = [chk EXCEPT !.ticks = @ - 1] /\ UNCHANGED << swapped, stopClosed, connClosed >>
  /\ UNCHANGED << tmpl, seq, wire, app, ref, peerClosed, closer, results >>
ChkStop ==
  /\ chk.pc = "wait" /\ stopClosed > 0
  /\ chk' = [chk EXCEPT !.pc = "exit"]
  /\ UNCHANGED << tmpl, seq, wire, app, ref, swapped, stopClosed, connClosed, peerClosed, closer, results >>

PeerClose == /\ Proto = "tcp" /\ ~peerClosed /\ peerClosed' = TRUE
             /\ UNCHANGED << tmpl, seq, wire, app, ref, chk, swapped, stopClosed, connClosed, closer, results >>

\* ---- CloseConnToCollector from closer c
CloseCall(c) ==
  /\ closer[c] = "idle"
  /\ InternalClose
  /\ closer' = [closer EXCEPT ![c] = "wait"]
  /\ UNCHANGED << tmpl, seq, wire, app, ref, chk, peerClosed, results >>
CloseReturn(c) ==
  /\ closer[c] = "wait" /\ ~BgAlive                                        \* wg.Wait()
  /\ closer' = [closer EXCEPT ![c] = "done"]
  /\ UNCHANGED << tmpl, seq, wire, app, ref, chk, swapped, stopClosed, connClosed, peerClosed, results >>

ECNext ==
  \/ \E kd \in {"template", "data"}, t \in Tids : AppBegin(kd, t)
  \/ AppWrite \/ RefTick \/ RefSend \/ RefStop \/ ChkTick \/ ChkStop \/ PeerClose
  \/ \E c \in Closers : CloseCall(c) \/ CloseReturn(c)

---------------------------------------------------------------------------
\* closing is idempotent and safe from any goroutine: stopCh is closed at most once
CloseOnce == stopClosed <= 1
\* nothing is written once the connection is closed (so nothing after any Close returned)
AnyReturned == \E c \in Closers : closer[c] = "done"
NoWriteAfterClose == [][connClosed => wire' = wire]_ecvars
\* closing stops all background work
ReturnedMeansStopped == AnyReturned => ~BgAlive /\ connClosed
\* the application's messages appear in the application's order, each at most once, never mixed
AppMsgs == SelectSeq(wire, LAMBDA m : m.src = "app")
AppInOrder == Len(AppMsgs) <= Len(SelectSeq(results, LAMBDA r : r = "ok")) + 1
\* a refreshed template is one the application has sent
RefreshKnown == \A i \in 1..Len(wire) : wire[i].src = "ref" => wire[i].kind = "template" /\ wire[i].tid \in tmpl
\* data messages carry the number of records sent so far
SeqMonotone == \A i, j \in 1..Len(wire) : i < j => wire[i].seq <= wire[j].seq
=============================================================================
