------------------------------ MODULE UdpClients ------------------------------
(***************************************************************************)
(* The UDP collector's per-source client goroutines (pkg/collector/udp.go):*)
(* the socket reader looks the source address up in the clients map        *)
(* (creating a client goroutine on first sight) and hands the datagram over*)
(* with   select { client.packetChan <- buf ; <-client.closeClientChan }.  *)
(* A client goroutine exits on stop or when its idle ticker fires; on exit *)
(* it removes itself from the map (under the mutex) and closes             *)
(* closeClientChan.  The comment in the code claims this cannot deadlock;  *)
(* this module checks that claim, and that a datagram handed over after    *)
(* the goroutine decided to exit is dropped rather than blocking the       *)
(* reader for ever.                                                        *)
(*                                                                         *)
(* Design-level only: the idle timeout is 1800 s in the code and there is  *)
(* no hook to fire it, so this module is model-checked but not bound to    *)
(* the implementation (the delivery / shutdown behaviour of the same code  *)
(* is bound through C12).                                                  *)
(***************************************************************************)
EXTENDS Integers, Sequences, FiniteSets

CONSTANTS Addrs, NDatagrams

VARIABLES
  arriving,   \* datagrams not yet read from the socket: sequence of source addresses
  rd,         \* reader: [pc, addr, cl]   pc: "recv" | "lookup" | "handoff" | "exit"
  clientsMap, \* address -> client id (the map under the mutex)
  cl,         \* client id -> [addr, pc, closed, got]  pc: "run" | "exiting" | "gone"
  ncl,        \* number of client goroutines ever created
  stopping,
  dropped     \* datagrams dropped at the hand-off because the client was closing

ucvars == << arriving, rd, clientsMap, cl, ncl, stopping, dropped >>

UCInit ==
  /\ arriving \in [1..NDatagrams -> Addrs]
  /\ rd = [pc |-> "recv", addr |-> CHOOSE a \in Addrs : TRUE, cl |-> 0]
  /\ clientsMap = [a \in {} |-> 0] /\ cl = << >> /\ ncl = 0 /\ stopping = FALSE /\ dropped = 0

\* the reader takes the next datagram off the socket (or sees the socket closed after stop)
Recv ==
  /\ rd.pc = "recv"
  /\ IF arriving # << >> /\ ~stopping
       THEN rd' = [pc |-> "lookup", addr |-> Head(arriving), cl |-> 0] /\ arriving' = Tail(arriving)
       ELSE stopping /\ rd' = [rd EXCEPT !.pc = "exit"] /\ UNCHANGED arriving
  /\ UNCHANGED << clientsMap, cl, ncl, stopping, dropped >>

\* under the mutex: find the client of that address or create it (and start its goroutine)
Lookup ==
  /\ rd.pc = "lookup"
  /\ IF rd.addr \in DOMAIN clientsMap
       THEN rd' = [rd EXCEPT !.pc = "handoff", !.cl = clientsMap[rd.addr]] /\ UNCHANGED << clientsMap, cl, ncl >>
       ELSE /\ ncl' = ncl + 1
            /\ cl' = Append(cl, [addr |-> rd.addr, pc |-> "run", closed |-> FALSE, got |-> 0])
            /\ clientsMap' = [a \in DOMAIN clientsMap \cup {rd.addr} |-> IF a = rd.addr THEN ncl + 1 ELSE clientsMap[a]]
            /\ rd' = [rd EXCEPT !.pc = "handoff", !.cl = ncl + 1]
  /\ UNCHANGED << arriving, stopping, dropped >>

\* select: the client receives the packet (rendezvous) ...
HandoffTaken ==
  /\ rd.pc = "handoff" /\ cl[rd.cl].pc = "run"
  /\ cl' = [cl EXCEPT ![rd.cl] = [@ EXCEPT !.got = @ + 1]]
  /\ rd' = [rd EXCEPT !.pc = "recv"]
  /\ UNCHANGED << arriving, clientsMap, ncl, stopping, dropped >>
\* ... or closeClientChan is closed
HandoffDropped ==
  /\ rd.pc = "handoff" /\ cl[rd.cl].closed
  /\ dropped' = dropped + 1
  /\ rd' = [rd EXCEPT !.pc = "recv"]
  /\ UNCHANGED << arriving, clientsMap, cl, ncl, stopping >>

\* a client goroutine decides to exit: idle ticker fired, or stop
ClientDecidesExit(c) ==
  /\ c \in 1..Len(cl) /\ cl[c].pc = "run"
  /\ cl' = [cl EXCEPT ![c] = [@ EXCEPT !.pc = "exiting"]]
  /\ UNCHANGED << arriving, rd, clientsMap, ncl, stopping, dropped >>
\* deferred: delete from the map under the mutex, then close(closeClientChan)
ClientUnregister(c) ==
  /\ c \in 1..Len(cl) /\ cl[c].pc = "exiting"
  /\ rd.pc # "lookup" \/ TRUE          \* the mutex: Lookup is one step, so it is never interleaved with this one
  /\ clientsMap' = [a \in { x \in DOMAIN clientsMap : clientsMap[x] # c } |-> clientsMap[a]]
  /\ cl' = [cl EXCEPT ![c] = [@ EXCEPT !.pc = "gone", !.closed = TRUE]]
  /\ UNCHANGED << arriving, rd, ncl, stopping, dropped >>

Stop == ~stopping /\ stopping' = TRUE /\ UNCHANGED << arriving, rd, clientsMap, cl, ncl, dropped >>

UCNext == Recv \/ Lookup \/ HandoffTaken \/ HandoffDropped \/ Stop
          \/ \E c \in 1..NDatagrams : ClientDecidesExit(c) \/ ClientUnregister(c)
UCSpec == UCInit /\ [][UCNext]_ucvars
UCFair == UCSpec /\ WF_ucvars(Recv) /\ WF_ucvars(Lookup) /\ WF_ucvars(HandoffTaken \/ HandoffDropped)
                 /\ \A c \in 1..NDatagrams : WF_ucvars(ClientUnregister(c)) /\ WF_ucvars(stopping /\ ClientDecidesExit(c))

\* the map never points at a goroutine that has gone
MapPointsAtLive == \A a \in DOMAIN clientsMap : cl[clientsMap[a]].pc # "gone" /\ cl[clientsMap[a]].addr = a
\* at most one live goroutine per address
OnePerAddr == \A c, d \in 1..Len(cl) : (c # d /\ cl[c].addr = cl[d].addr) => (cl[c].pc # "run" \/ cl[d].pc # "run")
\* every datagram read is accounted for: handed to a client or dropped at a closing one
Accounted == LET RECURSIVE S(_)
                 S(i) == IF i = 0 THEN 0 ELSE S(i - 1) + cl[i].got
             IN S(Len(cl)) + dropped + Len(arriving) + (IF rd.pc \in {"lookup", "handoff"} THEN 1 ELSE 0) = NDatagrams
\* the reader is never stuck at the hand-off for ever (the claim in the code's comment)
NoHandoffDeadlock == (rd.pc = "handoff") ~> (rd.pc # "handoff")
\* after stop everything winds down
StopWindsDown == stopping ~> (rd.pc = "exit" /\ \A c \in 1..Len(cl) : cl[c].pc = "gone")
=============================================================================
