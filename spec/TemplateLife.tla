---------------------------- MODULE TemplateLife ----------------------------
(***************************************************************************)
(* UDP template lifetime in the collector (pkg/collector/process.go:       *)
(* addTemplate / deleteTemplateWithConds and the AfterFunc timer).         *)
(*                                                                         *)
(* The code takes THREE steps when a template expires, and the races the   *)
(* property worries about live between them, so they are three actions:    *)
(*   Fire(o)    the runtime fires timer o: the timer becomes idle and its  *)
(*              callback is spawned on its own goroutine (arbitrarily late)*)
(*   CbRead(i)  the callback reads the clock (no lock held)                *)
(*   CbRun(i)   the callback, under the write lock, looks the key up AGAIN *)
(*              and deletes iff NOT expiryTime.After(seen); deleting stops *)
(*              the stored object's timer                                  *)
(* A timer belongs to a template OBJECT (created when the key is absent,   *)
(* kept across refreshes, abandoned on delete), as in the code.            *)
(* Reset(ttl) re-arms whether the timer was armed, fired or stopped.       *)
(***************************************************************************)
EXTENDS Integers, Sequences, FiniteSets

CONSTANTS Keys, Vers, TTL

VARIABLES
  now,      \* clock (integer units)
  store,    \* Keys -> None | [ver, expiry, obj]
  timers,   \* sequence (index = object id) of [key, armed, deadline]
  cbs,      \* sequence of in-flight callbacks [key, phase, seen]; phase "spawned" | "read"
  last      \* history: Keys -> -1 | time of the latest valid (re)transmission since the last invalidation

tlvars == << now, store, timers, cbs, last >>
None == [none |-> TRUE]

TLInit == /\ now = 0
          /\ store = [k \in Keys |-> None]
          /\ timers = << >>
          /\ cbs = << >>
          /\ last = [k \in Keys |-> -1]

\* a valid template (first one, replacement or refresh) for key k with version v
Template(k, v) ==
  /\ IF store[k] = None
       THEN /\ timers' = Append(timers, [key |-> k, armed |-> TRUE, deadline |-> now + TTL])     \* AfterFunc
            /\ store' = [store EXCEPT ![k] = [ver |-> v, expiry |-> now + TTL, obj |-> Len(timers) + 1]]
       ELSE /\ timers' = [timers EXCEPT ![store[k].obj] = [@ EXCEPT !.armed = TRUE, !.deadline = now + TTL]]  \* Reset
            /\ store' = [store EXCEPT ![k] = [@ EXCEPT !.ver = v, !.expiry = now + TTL]]
  /\ last' = [last EXCEPT ![k] = now]
  /\ UNCHANGED << now, cbs >>

\* a template set for k that fails after its id was read: invalidation
BadTemplate(k) ==
  /\ IF store[k] = None THEN UNCHANGED << store, timers >>
     ELSE /\ timers' = [timers EXCEPT ![store[k].obj] = [@ EXCEPT !.armed = FALSE]]               \* Stop
          /\ store' = [store EXCEPT ![k] = None]
  /\ last' = [last EXCEPT ![k] = -1]
  /\ UNCHANGED << now, cbs >>

\* a data set for k: accepted iff a template is stored (an expired-but-not-yet-collected one still decodes)
Data(k) == UNCHANGED tlvars
Accepts(k) == store[k] # None

Tick == now' = now + 1 /\ UNCHANGED << store, timers, cbs, last >>

Fire(o) ==
  /\ o \in 1..Len(timers) /\ timers[o].armed /\ now >= timers[o].deadline
  /\ timers' = [timers EXCEPT ![o] = [@ EXCEPT !.armed = FALSE]]
  /\ cbs' = Append(cbs, [key |-> timers[o].key, phase |-> "spawned", seen |-> -1])
  /\ UNCHANGED << now, store, last >>

CbRead(i) ==
  /\ i \in 1..Len(cbs) /\ cbs[i].phase = "spawned"
  /\ cbs' = [cbs EXCEPT ![i] = [@ EXCEPT !.phase = "read", !.seen = now]]
  /\ UNCHANGED << now, store, timers, last >>

RemoveAt(s, i) == [j \in 1..(Len(s) - 1) |-> IF j < i THEN s[j] ELSE s[j + 1]]

CbRun(i) ==
  /\ i \in 1..Len(cbs) /\ cbs[i].phase = "read"
  /\ LET k == cbs[i].key IN
       IF store[k] # None /\ ~(store[k].expiry > cbs[i].seen)
         THEN /\ timers' = [timers EXCEPT ![store[k].obj] = [@ EXCEPT !.armed = FALSE]]
              /\ store' = [store EXCEPT ![k] = None]
         ELSE UNCHANGED << store, timers >>
  /\ cbs' = RemoveAt(cbs, i)
  /\ UNCHANGED << now, last >>

---------------------------------------------------------------------------
Pending(k)  == Cardinality({ o \in 1..Len(timers) : timers[o].armed /\ timers[o].key = k })
InFlight(k) == \E i \in 1..Len(cbs) : cbs[i].key = k
Quiescent   == /\ cbs = << >>
               /\ \A o \in 1..Len(timers) : timers[o].armed => now < timers[o].deadline

\* usable for at least TTL after the most recent (re)transmission
NoEarlyDrop == \A k \in Keys : (last[k] >= 0 /\ now < last[k] + TTL) => store[k] # None
\* every stored template has an expiry pending; removed ones have no armed timer
ExpiryPending == \A k \in Keys :
  /\ store[k] # None => (Pending(k) = 1 \/ (Pending(k) = 0 /\ InFlight(k)))
  /\ store[k] = None => Pending(k) = 0
\* once every due timer has fired and every callback has run, nothing outlives its lifetime
NoOutlive == Quiescent => \A k \in Keys : store[k] # None => now < store[k].expiry
\* the stored object's timer is the one that is pending
TimerBelongs == \A k \in Keys : store[k] # None => timers[store[k].obj].key = k
=============================================================================
