------------------------------- MODULE Wire -------------------------------
(***************************************************************************)
(* RFC 7011 wire format as pure TLA+ operators over sequences of bytes.    *)
(* No variables.  This module is the oracle for every byte-level property  *)
(* (C01 C02 C03 C09 C15 C16 C17): it shares no code with the library.      *)
(*                                                                         *)
(* Conventions                                                             *)
(*  - a byte string is a sequence of 0..255                                *)
(*  - a field specifier (information element) is a record                  *)
(*        [id |-> 0..32767, ent |-> Nat, len |-> 0..65535, type |-> STRING]*)
(*    len = 65535 means variable length                                    *)
(*  - an abstract value is the sequence of its base-256 digits, most       *)
(*    significant first, at the element's width (integers, float bit       *)
(*    patterns, addresses, MACs); the raw bytes for strings/octet arrays;  *)
(*    <<1>> / <<0>> for boolean true / false                               *)
(*  - 32-bit header quantities that may exceed 2^31-1 (TLC integers are    *)
(*    32-bit signed) are pairs of 16-bit limbs <<hi, lo>>                  *)
(***************************************************************************)
EXTENDS Integers, Sequences, SequencesExt, FiniteSets

VarLen == 65535
MsgHdrLen == 16
SetHdrLen == 4
MaxMsgLen == 65535
TemplateSetId == 2

Byte == 0..255
IsBytes(s) == \A i \in 1..Len(s) : s[i] \in Byte

BE2(n) == << (n \div 256) % 256, n % 256 >>
BE4(n) == << (n \div 16777216) % 256, (n \div 65536) % 256, (n \div 256) % 256, n % 256 >>
Limbs4(l) == BE2(l[1]) \o BE2(l[2])
U16(b, i) == b[i] * 256 + b[i + 1]
ToLimbs(b, i) == << U16(b, i), U16(b, i + 2) >>

\* limb arithmetic modulo 2^32:  <<hi,lo>> + n   for 0 <= n < 2^31
AddLimbs(l, n) ==
  LET lo  == l[2] + (n % 65536)
      hi  == l[1] + (n \div 65536) + (lo \div 65536)
  IN  << hi % 65536, lo % 65536 >>

---------------------------------------------------------------------------
(* Values *)

VarLenPrefix(L) == IF L < 255 THEN << L >> ELSE << 255 >> \o BE2(L)

IsVar(f) == f.len = VarLen

\* Is v a well-typed abstract value for field f ?
ValueOK(f, v) ==
  /\ IsBytes(v)
  /\ IF f.type = "boolean" THEN v \in { <<0>>, <<1>> }
     ELSE IF IsVar(f) THEN Len(v) <= 65535
     ELSE Len(v) = f.len

EncValue(f, v) ==
  IF f.type = "boolean" THEN (IF v = <<1>> THEN <<1>> ELSE <<2>>)
  ELSE IF IsVar(f) THEN VarLenPrefix(Len(v)) \o v
  ELSE v

EncLen(f, v) ==
  IF f.type = "boolean" THEN 1
  ELSE IF IsVar(f) THEN (IF Len(v) < 255 THEN Len(v) + 1 ELSE Len(v) + 3)
  ELSE f.len

---------------------------------------------------------------------------
(* Records, sets, messages *)

FieldSpec(f) ==
  IF f.ent # 0
    THEN BE2(f.id + 32768) \o BE2(f.len) \o BE4(f.ent)
    ELSE BE2(f.id) \o BE2(f.len)

EncTemplateRecord(tid, fields) ==
  BE2(tid) \o BE2(Len(fields)) \o FlattenSeq([i \in 1..Len(fields) |-> FieldSpec(fields[i])])

EncDataRecord(fields, vals) ==
  FlattenSeq([i \in 1..Len(fields) |-> EncValue(fields[i], vals[i])])

DataRecordLen(fields, vals) ==
  LET RECURSIVE S(_)
      S(i) == IF i = 0 THEN 0 ELSE S(i - 1) + EncLen(fields[i], vals[i])
  IN S(Len(fields))

\* a set given its id and the concatenated record bytes
EncSet(setId, recBytes) == BE2(setId) \o BE2(SetHdrLen + Len(recBytes)) \o recBytes

EncTemplateSet(tid, fields) == EncSet(TemplateSetId, EncTemplateRecord(tid, fields))

EncDataSet(tid, fields, recs) ==
  EncSet(tid, FlattenSeq([i \in 1..Len(recs) |-> EncDataRecord(fields, recs[i])]))

\* time < 2^31 as an integer; seq and dom as limbs
EncMessage(time, seq, dom, setBytes) ==
  BE2(10) \o BE2(MsgHdrLen + Len(setBytes)) \o BE4(time) \o Limbs4(seq) \o Limbs4(dom) \o setBytes

MinRecLen(fields) ==
  LET RECURSIVE S(_)
      S(i) == IF i = 0 THEN 0
              ELSE S(i - 1) + (IF IsVar(fields[i]) THEN 1 ELSE fields[i].len)
  IN S(Len(fields))

---------------------------------------------------------------------------
(* Reference parser (independent formulation) *)

Fail == [ok |-> FALSE]

\* Parse one field starting at 1-based position pos of body.
ParseField(body, pos, f) ==
  IF IsVar(f) THEN
    IF pos > Len(body) THEN Fail
    ELSE IF body[pos] < 255 THEN
      LET L == body[pos] IN
        IF pos + L > Len(body) THEN Fail
        ELSE [ok |-> TRUE, val |-> SubSeq(body, pos + 1, pos + L), next |-> pos + 1 + L]
    ELSE IF pos + 2 > Len(body) THEN Fail
    ELSE LET L == U16(body, pos + 1) IN
        IF pos + 2 + L > Len(body) THEN Fail
        ELSE [ok |-> TRUE, val |-> SubSeq(body, pos + 3, pos + 2 + L), next |-> pos + 3 + L]
  ELSE
    IF pos + f.len - 1 > Len(body) THEN Fail
    ELSE [ok |-> TRUE,
          val |-> IF f.type = "boolean"
                    THEN (IF body[pos] = 1 THEN <<1>> ELSE <<0>>)
                    ELSE SubSeq(body, pos, pos + f.len - 1),
          next |-> pos + f.len]

\* Parse one record: all fields in order.  Result [ok, vals, next].
ParseRecord(body, pos, fields) ==
  LET RECURSIVE P(_, _, _)
      P(i, p, acc) ==
        IF i > Len(fields) THEN [ok |-> TRUE, vals |-> acc, next |-> p]
        ELSE LET r == ParseField(body, p, fields[i]) IN
             IF ~r.ok THEN Fail ELSE P(i + 1, r.next, Append(acc, r.val))
  IN P(1, pos, << >>)

\* Parse exactly n consecutive records from the start of body.
\* Result [ok, recs, next] (next = position after the n-th record).
ParseNRecords(body, fields, n) ==
  LET RECURSIVE P(_, _, _)
      P(k, p, acc) ==
        IF k = n THEN [ok |-> TRUE, recs |-> acc, next |-> p]
        ELSE LET r == ParseRecord(body, p, fields) IN
             IF ~r.ok THEN Fail ELSE P(k + 1, r.next, Append(acc, r.vals))
  IN P(0, 1, << >>)

\* Greedy parse: as many records as fit; the rest is leftover.
ParseDataBody(body, fields) ==
  LET RECURSIVE P(_, _)
      P(p, acc) ==
        IF p > Len(body) THEN [recs |-> acc, next |-> p]
        ELSE LET r == ParseRecord(body, p, fields) IN
             IF ~r.ok \/ r.next = p THEN [recs |-> acc, next |-> p]
             ELSE P(r.next, Append(acc, r.vals))
  IN P(1, << >>)

\* C03: is "recs" an exact decoding of body under fields ?
\*   - recs are the first Len(recs) consecutive records of body, each field at full width
\*   - what is left over is empty or shorter than the shortest possible record
\*   - a record that consumes no bytes is never delivered (nothing is conjured)
ExactDecode(body, fields, recs) ==
  LET p == ParseNRecords(body, fields, Len(recs)) IN
    /\ p.ok
    /\ p.recs = recs
    /\ LET left == Len(body) - (p.next - 1) IN
         \/ left = 0
         \/ left < MinRecLen(fields)
    /\ (MinRecLen(fields) = 0 => recs = << >>)

\* Template set body (after the 20 header bytes): tid, count, then specifiers.
\* Result [ok, tid, specs] where specs = <<[id, ent, len]>>; idRead tells whether the
\* template id itself could be read (the code invalidates only after that point).
ParseTemplateBody(body) ==
  IF Len(body) < 4 THEN [ok |-> FALSE, idRead |-> FALSE]
  ELSE
    LET tid == U16(body, 1)
        n   == U16(body, 3)
        RECURSIVE P(_, _, _)
        P(k, p, acc) ==
          IF k = n THEN [ok |-> TRUE, idRead |-> TRUE, tid |-> tid, specs |-> acc, next |-> p]
          ELSE IF p + 3 > Len(body) THEN [ok |-> FALSE, idRead |-> TRUE, tid |-> tid]
          ELSE LET raw == U16(body, p)
                   ln  == U16(body, p + 2) IN
               IF raw >= 32768 THEN
                 IF p + 7 > Len(body) THEN [ok |-> FALSE, idRead |-> TRUE, tid |-> tid]
                 ELSE P(k + 1, p + 8,
                        Append(acc, [id |-> raw - 32768, len |-> ln,
                                     entb |-> SubSeq(body, p + 4, p + 7)]))
               ELSE P(k + 1, p + 4, Append(acc, [id |-> raw, len |-> ln, entb |-> <<0, 0, 0, 0>>]))
    IN P(0, 5, << >>)

\* Message header (first 20 bytes incl. the set header, as the collector reads it).
ParseHeader(bytes) ==
  IF Len(bytes) < 20 THEN [ok |-> FALSE]
  ELSE [ok |-> TRUE, version |-> U16(bytes, 1), length |-> U16(bytes, 3),
        timeb |-> SubSeq(bytes, 5, 8), seq |-> ToLimbs(bytes, 9), dom |-> ToLimbs(bytes, 13),
        setId |-> U16(bytes, 17), setLen |-> U16(bytes, 19),
        body |-> SubSeq(bytes, 21, Len(bytes))]

=============================================================================
