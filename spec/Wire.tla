------------------------------- MODULE Wire -------------------------------
(***************************************************************************)
(* RFC 7011 wire format as pure TLA+ operators over sequences of bytes.    *)
(* No variables.  This module is the oracle for every byte-level property  *)
(* (C01 C02 C03 C09 C15 C16 C17): it shares no code with the library.      *)
(*                                                                         *)
(* Conventions                                                             *)
(*  - a byte string is a sequence of 0..255                                *)
(*  - a field specifier (information element) is a record                  *)
(*        [id |-> 0..32767, ent |-> Nat, len |-> 0..65535, type |-> STRING]*)
(*    len = 65535 means variable length                                    *)
(*  - an abstract value is the sequence of its base-256 digits, most       *)
(*    significant first, at the element's width (integers, float bit       *)
(*    patterns, addresses, MACs); the raw bytes for strings/octet arrays;  *)
(*    <<1>> / <<0>> for boolean true / false                               *)
(*  - 32-bit header quantities that may exceed 2^31-1 (TLC integers are    *)
(*    32-bit signed) are pairs of 16-bit limbs <<hi, lo>>                  *)
(***************************************************************************)
EXTENDS Integers, Sequences, SequencesExt, FiniteSets

VarLen == 65535
MsgHdrLen == 16
SetHdrLen == 4
MaxMsgLen == 65535
TemplateSetId == 2

Byte == 0..255
IsBytes(s) == \A i \in 1..Len(s) : s[i] \in Byte

BE2(n) == << (n \div 256) % 256, n % 256 >>
BE4(n) == << (n \div 16777216) % 256, (n \div 65536) % 256, (n \div 256) % 256, n % 256 >>
Limbs4(l) == BE2(l[1]) \o BE2(l[2])
U16(b, i) == b[i] * 256 + b[i + 1]
ToLimbs(b, i) == << U16(b, i), U16(b, i + 2) >>

\* limb arithmetic modulo 2^32:  <<hi,lo>> + n   for 0 <= n < 2^31
AddLimbs(l, n) ==
  LET lo  == l[2] + (n % 65536)
      hi  == l[1] + (n \div 65536) + (lo \div 65536)
  IN  << hi % 65536, lo % 65536 >>

---------------------------------------------------------------------------
(* Values *)

VarLenPrefix(L) == IF L < 255 THEN << L >> ELSE << 255 >> \o BE2(L)

\* DEVIATION (named): the library encodes a string element with a length prefix even when its
\* information element declares a fixed length (no shipped element does; a user-registered one may).
\* The template still advertises the declared length, and everything that READS (the decoder, the
\* minimum-record-length computations of exporter and collector) goes by the declared length: DeclVar.
\* Modelled so that builder-level properties (C16) and the decoder (C03) can be checked on such
\* elements; round-trip runs do not generate them (what is encoded is not what is decoded).
IsVar(f) == f.len = VarLen \/ f.type = "string"
DeclVar(f) == f.len = VarLen

\* Is v a well-typed abstract value for field f ?
ValueOK(f, v) ==
  /\ IsBytes(v)
  /\ IF f.type = "boolean" THEN v \in { <<0>>, <<1>> }
     ELSE IF IsVar(f) THEN Len(v) <= 65535
     ELSE Len(v) = f.len

\* DEVIATION (named): the record builders accept an ill-fitting value for a fixed-length octet array (only the
\* exporter's sanity check refuses it, C09); the encoder then writes nothing and the field reads as zeroes.
Loose(f, v) == f.type = "octetArray" /\ ~IsVar(f) /\ Len(v) # f.len
EncValue(f, v) ==
  IF f.type = "boolean" THEN (IF v = <<1>> THEN <<1>> ELSE <<2>>)
  ELSE IF IsVar(f) THEN VarLenPrefix(Len(v)) \o v
  ELSE IF Loose(f, v) THEN [i \in 1..f.len |-> 0]
  ELSE v

EncLen(f, v) ==
  IF f.type = "boolean" THEN 1
  ELSE IF IsVar(f) THEN (IF Len(v) < 255 THEN Len(v) + 1 ELSE Len(v) + 3)
  ELSE f.len

---------------------------------------------------------------------------
(* Records, sets, messages *)

\* concatenation of a sequence of sequences, balanced (O(total log n) copying; the
\* CommunityModules FlattenSeq is a left fold, quadratic on thousands of pieces)
RECURSIVE CatRange(_, _, _)
CatRange(s, a, b) ==
  IF a > b THEN << >>
  ELSE IF a = b THEN s[a]
  ELSE LET m == (a + b) \div 2 IN CatRange(s, a, m) \o CatRange(s, m + 1, b)
Flat(s) == CatRange(s, 1, Len(s))

\* enterprise number as 4 bytes: taken from f.entb when the field carries it (numbers >= 2^31
\* do not fit a TLC integer), else computed from f.ent
EntB(f) == IF "entb" \in DOMAIN f THEN f.entb ELSE BE4(f.ent)
IsEnterprise(f) == EntB(f) # <<0, 0, 0, 0>>

FieldSpec(f) ==
  IF IsEnterprise(f)
    THEN BE2(f.id + 32768) \o BE2(f.len) \o EntB(f)
    ELSE BE2(f.id) \o BE2(f.len)

EncTemplateRecord(tid, fields) ==
  BE2(tid) \o BE2(Len(fields)) \o Flat([i \in 1..Len(fields) |-> FieldSpec(fields[i])])

EncDataRecord(fields, vals) ==
  Flat([i \in 1..Len(fields) |-> EncValue(fields[i], vals[i])])

\* (sums and parsers are written as FoldLeft: TLC evaluates it iteratively, whereas a RECURSIVE
\*  operator thousands of levels deep makes every symbol lookup walk the whole context chain)
DataRecordLen(fields, vals) ==
  FoldLeftDomain(LAMBDA acc, i : acc + EncLen(fields[i], vals[i]), 0, fields)

\* a set given its id and the concatenated record bytes
EncSet(setId, recBytes) == BE2(setId) \o BE2(SetHdrLen + Len(recBytes)) \o recBytes

EncTemplateSet(tid, fields) == EncSet(TemplateSetId, EncTemplateRecord(tid, fields))

EncDataSet(tid, fields, recs) ==
  EncSet(tid, Flat([i \in 1..Len(recs) |-> EncDataRecord(fields, recs[i])]))

\* time < 2^31 as an integer; seq and dom as limbs
EncMessage(time, seq, dom, setBytes) ==
  BE2(10) \o BE2(MsgHdrLen + Len(setBytes)) \o BE4(time) \o Limbs4(seq) \o Limbs4(dom) \o setBytes

\* length of the specifiers of a template record (4 per field, +4 when enterprise-specific)
MinSpecLen(fields) ==
  FoldLeft(LAMBDA acc, f : acc + (IF IsEnterprise(f) THEN 8 ELSE 4), 0, fields)

\* a record as the builders hold it: [kind, tid, fields, vals]
RecBytes(r) == IF r.kind = "template" THEN EncTemplateRecord(r.tid, r.fields)
                                      ELSE EncDataRecord(r.fields, r.vals)
RecLen(r) == IF r.kind = "template"
               THEN 4 + MinSpecLen(r.fields)
               ELSE DataRecordLen(r.fields, r.vals)

MinRecLen(fields) ==
  FoldLeft(LAMBDA acc, f : acc + (IF DeclVar(f) THEN 1 ELSE f.len), 0, fields)

---------------------------------------------------------------------------
(* Reference parser (independent formulation) *)

Fail == [ok |-> FALSE]

\* Parse one field starting at 1-based position pos of body.
ParseField(body, pos, f) ==
  IF DeclVar(f) THEN
    IF pos > Len(body) THEN Fail
    ELSE IF body[pos] < 255 THEN
      LET L == body[pos] IN
        IF pos + L > Len(body) THEN Fail
        ELSE [ok |-> TRUE, val |-> SubSeq(body, pos + 1, pos + L), next |-> pos + 1 + L]
    ELSE IF pos + 2 > Len(body) THEN Fail
    ELSE LET L == U16(body, pos + 1) IN
        IF pos + 2 + L > Len(body) THEN Fail
        ELSE [ok |-> TRUE, val |-> SubSeq(body, pos + 3, pos + 2 + L), next |-> pos + 3 + L]
  ELSE
    IF pos + f.len - 1 > Len(body) THEN Fail
    ELSE [ok |-> TRUE,
          val |-> IF f.type = "boolean"
                    THEN (IF body[pos] = 1 THEN <<1>> ELSE <<0>>)
                    ELSE SubSeq(body, pos, pos + f.len - 1),
          next |-> pos + f.len]

\* Parse one record: all fields in order.  Result [ok, vals, next].
ParseRecord(body, pos, fields) ==
  FoldLeft(LAMBDA a, f :
             IF ~a.ok THEN a
             ELSE LET r == ParseField(body, a.next, f) IN
                  IF ~r.ok THEN [ok |-> FALSE, vals |-> << >>, next |-> a.next]
                  ELSE [ok |-> TRUE, vals |-> Append(a.vals, r.val), next |-> r.next],
           [ok |-> TRUE, vals |-> << >>, next |-> pos], fields)

\* Parse exactly n consecutive records from the start of body.
\* Result [ok, recs, next] (next = position after the n-th record).
ParseNRecords(body, fields, n) ==
  FoldLeft(LAMBDA a, k :
             IF ~a.ok THEN a
             ELSE LET r == ParseRecord(body, a.next, fields) IN
                  IF ~r.ok THEN [ok |-> FALSE, recs |-> << >>, next |-> a.next]
                  ELSE [ok |-> TRUE, recs |-> Append(a.recs, r.vals), next |-> r.next],
           [ok |-> TRUE, recs |-> << >>, next |-> 1], [k \in 1..n |-> k])

\* Greedy parse: as many records as fit; the rest is leftover.
ParseDataBody(body, fields) ==
  LET m == MinRecLen(fields)
      bound == IF m = 0 THEN 0 ELSE Len(body) \div m
      res == FoldLeft(LAMBDA a, k :
                 IF a.done \/ a.next > Len(body) THEN a
                 ELSE LET r == ParseRecord(body, a.next, fields) IN
                      IF ~r.ok \/ r.next = a.next THEN [a EXCEPT !.done = TRUE]
                      ELSE [done |-> FALSE, recs |-> Append(a.recs, r.vals), next |-> r.next],
               [done |-> FALSE, recs |-> << >>, next |-> 1], [k \in 1..bound |-> k])
  IN [recs |-> res.recs, next |-> res.next]

\* C03: is "recs" an exact decoding of body under fields ?
\*   - recs are the first Len(recs) consecutive records of body, each field at full width
\*   - what is left over is empty or shorter than the shortest possible record
\*   - a record that consumes no bytes is never delivered (nothing is conjured)
ExactDecode(body, fields, recs) ==
  LET p == ParseNRecords(body, fields, Len(recs)) IN
    /\ p.ok
    /\ p.recs = recs
    /\ LET left == Len(body) - (p.next - 1) IN
         \/ left = 0
         \/ left < MinRecLen(fields)
    /\ (MinRecLen(fields) = 0 => recs = << >>)

\* Template set body (after the 20 header bytes): tid, count, then specifiers.
\* Result [ok, tid, specs] where specs = <<[id, ent, len]>>; idRead tells whether the
\* template id itself could be read (the code invalidates only after that point).
ParseTemplateBody(body) ==
  IF Len(body) < 4 THEN [ok |-> FALSE, idRead |-> FALSE]
  ELSE
    LET tid == U16(body, 1)
        n   == U16(body, 3)
        \* no more than Len(body) \div 4 specifiers can be present; a larger count must fail
        steps == IF n <= Len(body) \div 4 THEN n ELSE (Len(body) \div 4) + 1
        res == FoldLeft(LAMBDA a, k :
                 IF ~a.ok THEN a
                 ELSE LET p == a.next IN
                   IF p + 3 > Len(body) THEN [a EXCEPT !.ok = FALSE]
                   ELSE LET raw == U16(body, p)
                            ln  == U16(body, p + 2) IN
                        IF raw >= 32768 THEN
                          IF p + 7 > Len(body) THEN [a EXCEPT !.ok = FALSE]
                          ELSE [ok |-> TRUE, next |-> p + 8,
                                specs |-> Append(a.specs, [id |-> raw - 32768, len |-> ln,
                                                           entb |-> SubSeq(body, p + 4, p + 7)])]
                        ELSE [ok |-> TRUE, next |-> p + 4,
                              specs |-> Append(a.specs, [id |-> raw, len |-> ln, entb |-> <<0, 0, 0, 0>>])],
               [ok |-> TRUE, next |-> 5, specs |-> << >>], [k \in 1..steps |-> k])
    IN IF res.ok THEN [ok |-> TRUE, idRead |-> TRUE, tid |-> tid, specs |-> res.specs, next |-> res.next]
       ELSE [ok |-> FALSE, idRead |-> TRUE, tid |-> tid]

\* Message header (first 20 bytes incl. the set header, as the collector reads it).
ParseHeader(bytes) ==
  IF Len(bytes) < 20 THEN [ok |-> FALSE]
  ELSE [ok |-> TRUE, version |-> U16(bytes, 1), length |-> U16(bytes, 3),
        timeb |-> SubSeq(bytes, 5, 8), seq |-> ToLimbs(bytes, 9), dom |-> ToLimbs(bytes, 13),
        setId |-> U16(bytes, 17), setLen |-> U16(bytes, 19),
        body |-> SubSeq(bytes, 21, Len(bytes))]

=============================================================================
