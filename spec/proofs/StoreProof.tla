----------------------------- MODULE StoreProof -----------------------------
(***************************************************************************)
(* TLAPS proofs about Store.tla (the standalone collector's bounded        *)
(* window) for EVERY cap >= 1 and EVERY history; TLC checks Cap = 3 and 9  *)
(* steps.  The actions are Store.tla's own (EXTENDS), the same ones the    *)
(* trace specification C20Trace replays against the real collector.        *)
(*   Safety : the window never holds more than Cap entries;                *)
(*   Safety2: the window is always a suffix of everything that arrived, in *)
(*            arrival order (nothing reordered, duplicated or invented).   *)
(* Checked by:  tlapm -I .. StoreProof.tla   (tools/proofs.sh)             *)
(***************************************************************************)
EXTENDS Store, SequenceTheorems, TLAPS

ASSUME CapPos == Cap \in Nat /\ Cap >= 1

Next == \/ \E id \in Nat : Arrive(id)
        \/ \E m \in {"POST", "GET", "PUT"} : ResetReq(m)
        \/ Query
Spec == SInit /\ [][Next]_svars

SuffixOf(s, t) == \E pre \in Seq(Nat) : t = pre \o s
Inv == /\ win \in Seq(Nat) /\ arrivals \in Seq(Nat)
       /\ Len(win) <= Cap
       /\ SuffixOf(win, arrivals)

THEOREM InitInv == SInit => Inv
  <1> SUFFICES ASSUME SInit PROVE Inv
    OBVIOUS
  <1>1. << >> \in Seq(Nat) /\ Len(<< >>) = 0 /\ << >> = << >> \o << >>
    OBVIOUS
  <1> QED BY <1>1, CapPos DEF SInit, Inv, SuffixOf

THEOREM NextInv == Inv /\ [Next]_svars => Inv'
  <1> SUFFICES ASSUME Inv, [Next]_svars PROVE Inv'
    OBVIOUS
  <1> USE CapPos DEF Inv
  <1>0. PICK pre \in Seq(Nat) : arrivals = pre \o win
    BY DEF SuffixOf
  <1>1. ASSUME NEW id \in Nat, Arrive(id) PROVE Inv'
    <2>0. arrivals' = Append(arrivals, id) /\ arrivals' \in Seq(Nat)
      BY <1>1, AppendProperties DEF Arrive
    <2>1. CASE Len(win) >= Cap
      <3>1. win # << >>
        BY <2>1, EmptySeq
      <3>2. /\ Tail(win) \in Seq(Nat) /\ Head(win) \in Nat /\ win = << Head(win) >> \o Tail(win)
            /\ Len(Tail(win)) = Len(win) - 1
        BY <3>1, HeadTailProperties
      <3>3. win' = Append(Tail(win), id)
        BY <1>1, <2>1 DEF Arrive
      <3>4. win' \in Seq(Nat) /\ Len(win') = Len(Tail(win)) + 1
        BY <3>2, <3>3, AppendProperties
      <3>5. << Head(win) >> \in Seq(Nat) /\ << id >> \in Seq(Nat)
        BY <3>2
      <3>6. pre \o << Head(win) >> \in Seq(Nat)
        BY <3>5, ConcatProperties
      <3>7. arrivals' = (pre \o win) \o << id >>
        BY <2>0, <1>0, AppendIsConcat
      <3>8. (pre \o win) \o << id >> = (pre \o << Head(win) >>) \o (Tail(win) \o << id >>)
        <4>1. pre \o win = (pre \o << Head(win) >>) \o Tail(win)
          BY <3>2, <3>5, ConcatAssociative
        <4>2. ((pre \o << Head(win) >>) \o Tail(win)) \o << id >> = (pre \o << Head(win) >>) \o (Tail(win) \o << id >>)
          BY <3>2, <3>5, <3>6, ConcatAssociative
        <4> QED BY <4>1, <4>2
      <3>9. win' = Tail(win) \o << id >>
        BY <3>2, <3>3, AppendIsConcat
      <3>10. Len(win') <= Cap
        BY <3>2, <3>4
      <3> QED BY <2>0, <3>4, <3>6, <3>7, <3>8, <3>9, <3>10 DEF SuffixOf
    <2>2. CASE ~(Len(win) >= Cap)
      <3>1. win' = Append(win, id)
        BY <1>1, <2>2 DEF Arrive
      <3>2. win' \in Seq(Nat) /\ win' = win \o << id >> /\ Len(win') = Len(win) + 1
        BY <3>1, AppendProperties, AppendIsConcat
      <3>3. << id >> \in Seq(Nat)
        OBVIOUS
      <3>4. arrivals' = (pre \o win) \o << id >>
        BY <2>0, <1>0, AppendIsConcat
      <3>5. (pre \o win) \o << id >> = pre \o (win \o << id >>)
        BY <3>3, ConcatAssociative
      <3>6. Len(win') <= Cap
        BY <3>2, <2>2
      <3> QED BY <2>0, <3>2, <3>4, <3>5, <3>6 DEF SuffixOf
    <2> QED BY <2>1, <2>2
  <1>2. ASSUME NEW m \in {"POST", "GET", "PUT"}, ResetReq(m) PROVE Inv'
    <2>1. CASE m = "POST"
      <3>1. win' = << >> /\ arrivals' = arrivals
        BY <1>2, <2>1 DEF ResetReq
      <3>2. << >> \in Seq(Nat) /\ Len(<< >>) = 0 /\ arrivals = arrivals \o << >>
        BY ConcatEmptySeq
      <3> QED BY <3>1, <3>2 DEF SuffixOf
    <2>2. CASE m # "POST"
      <3>1. win' = win /\ arrivals' = arrivals
        BY <1>2, <2>2 DEF ResetReq
      <3> QED BY <3>1, <1>0 DEF SuffixOf
    <2> QED BY <2>1, <2>2
  <1>3. CASE Query \/ UNCHANGED svars
    BY <1>3, <1>0 DEF Query, svars, SuffixOf
  <1> QED BY <1>1, <1>2, <1>3 DEF Next

THEOREM Safety == Spec => [](Len(win) <= Cap)
  <1>1. Inv /\ [][Next]_svars => []Inv
    BY NextInv, PTL
  <1> QED BY InitInv, <1>1, PTL DEF Spec, Inv

THEOREM Safety2 == Spec => []SuffixOf(win, arrivals)
  <1>1. Inv /\ [][Next]_svars => []Inv
    BY NextInv, PTL
  <1> QED BY InitInv, <1>1, PTL DEF Spec, Inv
=============================================================================
