--------------------------- MODULE TransportProof ---------------------------
(***************************************************************************)
(* TLAPS: the admission policy of Transport.tla for EVERY cell, in         *)
(* particular for every validity period (TLC enumerates six of them).      *)
(*  - an exporter TLS session is established only with a verified server  *)
(*    (chain, validity at the instant of the handshake, name) at TLS 1.2+, *)
(*    never with a plaintext peer or an unusable configuration;            *)
(*  - no tolerance on the validity period, for TLS and DTLS alike;         *)
(*  - a history never vouches for an attempt.                              *)
(***************************************************************************)
EXTENDS Transport, TLAPS

THEOREM EstablishedImpliesVerified ==
  ASSUME NEW cell, cell.proto = "tls", ExporterEstablishes(cell) = "yes"
  PROVE  /\ Chains(cell.srvCert) /\ InValidity(cell) /\ NameOK(cell)
         /\ cell.peerMax >= 12 /\ ~cell.plain /\ CfgOK(cell)
  BY DEF ExporterEstablishes, ServerOK, VersionOK

THEOREM NoSkewTolerance ==
  ASSUME NEW cell, cell.nb \in Int, cell.na \in Int, cell.nb > 0 \/ cell.na < 0
  PROVE  ExporterEstablishes(cell) = "no"
  <1>1. ~InValidity(cell)
    BY DEF InValidity
  <1> QED BY <1>1 DEF ExporterEstablishes, ServerOK

THEOREM NoPlaintextEver ==
  ASSUME NEW cell, cell.plain \/ ~CfgOK(cell)
  PROVE  ExporterEstablishes(cell) = "no"
  BY DEF ExporterEstablishes

THEOREM DeliveryImpliesClientAuth ==
  ASSUME NEW cell, cell.proto = "tls", cell.cliCA, CollectorDelivers(cell) = "yes"
  PROVE  cell.cliCert = "trusted" /\ cell.peerMax >= 12 /\ ~cell.plain
  BY DEF CollectorDelivers, ClientOK, VersionOK

\* histories: whatever sess holds, an attempt is admitted on its own cell alone
THEOREM AttemptOnOwnCell ==
  ASSUME NEW s, NEW cell, NEW est \in BOOLEAN, Attempt(s, cell, est)
  PROVE  /\ est => ExporterEstablishes(cell) # "no"
         /\ ~est => ExporterEstablishes(cell) # "yes"
  BY DEF Attempt, Agrees
=============================================================================
