---------------------------- MODULE CollectorConc ----------------------------
(***************************************************************************)
(* The collecting process under many clients (pkg/collector tcp.go/udp.go):*)
(* per connection a reader goroutine decodes one message at a time and     *)
(* hands it to the consumer over ONE unbuffered channel (the send blocks   *)
(* until the consumer receives); Stop closes stopChan and waits for every  *)
(* goroutine registered in the wait group.                                 *)
(*   reader[c].pc:  "read" -> "send" (holding a decoded message) -> "read" *)
(*                  ... -> "exit" (EOF, error, or stop)                    *)
(* TCP: nothing is lost between client and reader; UDP: the network may    *)
(* drop a datagram before the reader sees it.                              *)
(***************************************************************************)
EXTENDS Integers, Sequences, FiniteSets

CONSTANTS Clients, NMsgs, Lossy

VARIABLES
  wrote,      \* Clients -> number of messages the client has written
  cclosed,    \* Clients -> client closed its end
  net,        \* Clients -> sequence of message indices in flight to the reader
  reader,     \* Clients -> [pc, holding]
  registered, \* Clients -> connection present in the clients map
  delivered,  \* Clients -> sequence of message indices the consumer received
  stopping,   \* stopChan closed
  stopped     \* Stop returned

ccvars == << wrote, cclosed, net, reader, registered, delivered, stopping, stopped >>

CCInit ==
  /\ wrote = [c \in Clients |-> 0] /\ cclosed = [c \in Clients |-> FALSE]
  /\ net = [c \in Clients |-> << >>]
  /\ reader = [c \in Clients |-> [pc |-> "read", holding |-> 0]]
  /\ registered = [c \in Clients |-> TRUE]
  /\ delivered = [c \in Clients |-> << >>]
  /\ stopping = FALSE /\ stopped = FALSE

ClientWrite(c) ==
  /\ ~cclosed[c] /\ wrote[c] < NMsgs
  /\ wrote' = [wrote EXCEPT ![c] = @ + 1]
  /\ net' = [net EXCEPT ![c] = Append(@, wrote[c] + 1)]
  /\ UNCHANGED << cclosed, reader, registered, delivered, stopping, stopped >>
ClientClose(c) ==
  /\ ~cclosed[c] /\ cclosed' = [cclosed EXCEPT ![c] = TRUE]
  /\ UNCHANGED << wrote, net, reader, registered, delivered, stopping, stopped >>
Drop(c) ==
  /\ Lossy /\ net[c] # << >> /\ net' = [net EXCEPT ![c] = Tail(@)]
  /\ UNCHANGED << wrote, cclosed, reader, registered, delivered, stopping, stopped >>

\* the reader takes the next message off the connection and decodes it
ReaderRead(c) ==
  /\ reader[c].pc = "read" /\ net[c] # << >>
  /\ reader' = [reader EXCEPT ![c] = [pc |-> "send", holding |-> Head(net[c])]]
  /\ net' = [net EXCEPT ![c] = Tail(@)]
  /\ UNCHANGED << wrote, cclosed, registered, delivered, stopping, stopped >>
\* the unbuffered channel: the reader's send and the consumer's receive are one step
Handoff(c) ==
  /\ reader[c].pc = "send"
  /\ delivered' = [delivered EXCEPT ![c] = Append(@, reader[c].holding)]
  /\ reader' = [reader EXCEPT ![c] = [pc |-> "read", holding |-> 0]]
  /\ UNCHANGED << wrote, cclosed, net, registered, stopping, stopped >>
\* EOF (client closed, nothing left) or stop: the reader exits and the connection is unregistered
ReaderExit(c) ==
  /\ reader[c].pc = "read"
  /\ (cclosed[c] /\ net[c] = << >>) \/ stopping
  /\ reader' = [reader EXCEPT ![c] = [pc |-> "exit", holding |-> 0]]
  /\ registered' = [registered EXCEPT ![c] = FALSE]
  /\ UNCHANGED << wrote, cclosed, net, delivered, stopping, stopped >>

StopCall == /\ ~stopping /\ stopping' = TRUE
            /\ UNCHANGED << wrote, cclosed, net, reader, registered, delivered, stopped >>
StopReturn == /\ stopping /\ ~stopped /\ \A c \in Clients : reader[c].pc = "exit"       \* wg.Wait()
              /\ stopped' = TRUE
              /\ UNCHANGED << wrote, cclosed, net, reader, registered, delivered, stopping >>

CCNext == \/ \E c \in Clients : ClientWrite(c) \/ ClientClose(c) \/ Drop(c) \/ ReaderRead(c) \/ Handoff(c) \/ ReaderExit(c)
          \/ StopCall \/ StopReturn

---------------------------------------------------------------------------
Increasing(s) == \A i \in 1..(Len(s) - 1) : s[i] < s[i + 1]
\* per connection: in the order sent, each at most once; over a reliable transport with no gaps
PerConnOrder == \A c \in Clients : /\ Increasing(delivered[c])
                                   /\ ~Lossy => delivered[c] = [i \in 1..Len(delivered[c]) |-> i]
OnlyWritten == \A c \in Clients : \A i \in 1..Len(delivered[c]) : delivered[c][i] <= wrote[c]
\* a reliable connection that ended on its own (EOF) delivered everything it carried
ExactlyOnce == \A c \in Clients : (~Lossy /\ ~stopping /\ reader[c].pc = "exit") => Len(delivered[c]) = wrote[c]
\* the connection count returns to zero when clients disconnect
CountZero == \A c \in Clients : reader[c].pc = "exit" <=> ~registered[c]
\* nothing is delivered once Stop has returned
AfterStop == [][stopped => delivered' = delivered]_ccvars
=============================================================================
