----------------------------- MODULE Aggregation -----------------------------
(***************************************************************************)
(* Flow aggregation process (pkg/intermediate): flow map keyed by 5-tuple, *)
(* expiry priority queue, inter-node correlation, counter arithmetic.      *)
(* Every public method holds the one mutex for its whole body, so each is  *)
(* ONE action here; this module is also the sequential specification that  *)
(* the linearizability check (AggLin.tla, C13) searches against.           *)
(*                                                                         *)
(* Time is an integer number of units; the conformance harness realises it *)
(* with the verif hook that shifts every queued deadline (1 unit = 1 h).   *)
(*                                                                         *)
(* Stats elements are indexed 1..6 as in the Antrea configuration:         *)
(*   1 packetTotal  2 packetDelta  3 octetTotal                            *)
(*   4 revPacketTotal 5 revPacketDelta 6 revOctetTotal                     *)
(* 2,5 are delta counters; 3 and 6 feed throughput 1 and 2.                *)
(***************************************************************************)
EXTENDS Integers, Sequences, FiniteSets, SequencesExt

CONSTANTS ActiveT, InactiveT,   \* timeouts, in units
          MaxRetries,
          MinU                    \* the library's MinExpiryTime (package variable), in units; 0 = "a sub-unit amount"

VARIABLES
  now,      \* virtual clock
  flows,    \* function: held keys -> aggregated flow record
  queue,    \* set of expiry items [key, act, inact]
  hist      \* history (per key): what the declarative invariants of C05 read

agvars == << now, flows, queue, hist >>

NStats   == 6
DeltaIdx == {2, 5}
TputOf   == [j \in {1, 2} |-> 3 * j]          \* throughput j is computed from stats element 3j
Zero6    == [i \in 1..NStats |-> 0]
Zero2    == [j \in 1..2 |-> 0]

InterNode == 2
IsDeny(a) == a \in {2, 3}          \* egress drop / reject
IsReject(a) == a = 3

\* ---- classification of an incoming record r =
\*   [key, sp, dp, sns, dns, ftype, egress, ingress, prio, cip, start, end, vals, reason]
\*   (cip: destinationClusterIPv4 as four bytes; 0.0.0.0 is the empty value)
NeedsCorrelation(r) == r.ftype = InterNode /\ ~IsDeny(r.egress) /\ ~IsReject(r.ingress)
FromSrc(sp, dp) == sp # "" /\ dp = ""
FromDst(sp, dp) == dp # "" /\ sp = ""
SameNode(r, f) == (FromSrc(r.sp, r.dp) /\ FromSrc(f.sp, f.dp)) \/ (FromDst(r.sp, r.dp) /\ FromDst(f.sp, f.dp))

Held == DOMAIN flows
FnPut(f, k, v) == [x \in DOMAIN f \cup {k} |-> IF x = k THEN v ELSE f[x]]
FnDel(f, k) == [x \in DOMAIN f \ {k} |-> f[x]]
ItemOf(k) == CHOOSE it \in queue : it.key = k
MinT(it) == IF it.act < it.inact THEN it.act ELSE it.inact
Max2(a, b) == IF a > b THEN a ELSE b

AgInit == /\ now = 0 /\ flows = [k \in {} |-> 0] /\ queue = {} /\ hist = [k \in {} |-> 0]

---------------------------------------------------------------------------
(* Arithmetic (aggregateRecords / addFieldsFor...)                         *)

Tput(tot, dt) == IF dt > 0 THEN (8 * tot) \div dt ELSE 0

\* first record of a flow: the record itself becomes the aggregate; per-node fields are seeded
NewFlow(r, fs, fd) ==
  [ sp |-> r.sp, dp |-> r.dp, sns |-> r.sns, dns |-> r.dns,
    ftype |-> r.ftype, egress |-> r.egress, ingress |-> r.ingress, prio |-> r.prio, cip |-> r.cip,
    start |-> r.start, end |-> r.end,
    endS |-> IF fs THEN r.end ELSE 0, endD |-> IF fd THEN r.end ELSE 0,
    com |-> r.vals,
    frS |-> IF fs THEN r.vals ELSE Zero6, frD |-> IF fd THEN r.vals ELSE Zero6,
    tp  |-> [j \in 1..2 |-> Tput(r.vals[TputOf[j]], r.end - r.start)],
    tpS |-> IF fs THEN [j \in 1..2 |-> Tput(r.vals[TputOf[j]], r.end - r.start)] ELSE Zero2,
    tpD |-> IF fd THEN [j \in 1..2 |-> Tput(r.vals[TputOf[j]], r.end - r.start)] ELSE Zero2,
    reason |-> r.reason,
    ready |-> FALSE, retries |-> 0, filled |-> FALSE ]

\* later record: latest = whether the common fields follow this record
Aggregate(f, r, fs, fd, latest) ==
  LET end2  == IF latest THEN r.end ELSE f.end
      prevS == IF f.endS = 0 THEN r.start ELSE f.endS
      prevD == IF f.endD = 0 THEN r.start ELSE f.endD
      prev  == IF fd THEN prevD ELSE prevS                  \* both set: the destination's wins
      f1    == [f EXCEPT !.end = end2,
                         !.endS = IF fs THEN r.end ELSE @,
                         !.endD = IF fd THEN r.end ELSE @]
  IN IF r.end <= prev THEN f1                               \* stale record: nothing aggregated
     ELSE
       LET dt   == r.end - prev
           nS   == [i \in 1..NStats |-> IF ~fs THEN f.frS[i]
                                        ELSE IF i \in DeltaIdx THEN f.frS[i] + r.vals[i] ELSE r.vals[i]]
           nD   == [i \in 1..NStats |-> IF ~fd THEN f.frD[i]
                                        ELSE IF i \in DeltaIdx THEN f.frD[i] + r.vals[i] ELSE r.vals[i]]
           diff == [j \in 1..2 |-> IF fd THEN r.vals[TputOf[j]] - f.frD[TputOf[j]]
                                   ELSE r.vals[TputOf[j]] - f.frS[TputOf[j]]]
           tv   == [j \in 1..2 |-> (8 * diff[j]) \div dt]
           nC   == [i \in 1..NStats |->
                      IF ~latest THEN f.com[i]
                      ELSE IF i \in DeltaIdx THEN (IF fd THEN nD[i] ELSE nS[i])
                      ELSE Max2(f.com[i], r.vals[i])]
       IN [f1 EXCEPT !.frS = nS, !.frD = nD, !.com = nC,
                     !.tpS = IF fs THEN tv ELSE @, !.tpD = IF fd THEN tv ELSE @,
                     !.tp = IF latest THEN tv ELSE @,
                     !.reason = IF @ = 3 THEN 3 ELSE r.reason]

\* correlation: every non-empty correlate field of the incoming record overwrites
\* (strings: non-empty; numbers, signed ones included: non-zero)
Correlate(f, r) ==
  [f EXCEPT !.sp = IF r.sp # "" THEN r.sp ELSE @, !.dp = IF r.dp # "" THEN r.dp ELSE @,
            !.sns = IF r.sns # "" THEN r.sns ELSE @, !.dns = IF r.dns # "" THEN r.dns ELSE @,
            !.egress = IF r.egress # 0 THEN r.egress ELSE @, !.ingress = IF r.ingress # 0 THEN r.ingress ELSE @,
            !.prio = IF r.prio # 0 THEN r.prio ELSE @,
            !.cip = IF r.cip # <<0, 0, 0, 0>> THEN r.cip ELSE @]

---------------------------------------------------------------------------
(* History for the declarative statement of C05.  Per key:                 *)
(*   recs[n]   records that filled node n's fields since creation          *)
(*   sinceReset[n]  how many of them came after the last reset             *)
(*   maxEnd    largest end time seen;  follow  node(s) the common fields follow *)
HNew(r, fs, fd) == [recsS |-> IF fs THEN <<r>> ELSE << >>, recsD |-> IF fd THEN <<r>> ELSE << >>,
                    srS |-> IF fs THEN 1 ELSE 0, srD |-> IF fd THEN 1 ELSE 0, stale |-> FALSE, both |-> fs /\ fd]
HAdd(h, r, fs, fd, isStale) ==
  [h EXCEPT !.recsS = IF fs /\ ~isStale THEN Append(@, r) ELSE @, !.recsD = IF fd /\ ~isStale THEN Append(@, r) ELSE @,
            !.srS = IF fs /\ ~isStale THEN @ + 1 ELSE @, !.srD = IF fd /\ ~isStale THEN @ + 1 ELSE @,
            \* outside the statement: a stale record, or records of one 5-tuple that disagree on
            \* whether the flow is one reporting stream or two correlated ones
            !.stale = @ \/ isStale \/ (h.both # (fs /\ fd))]
HReset(h) == [h EXCEPT !.srS = 0, !.srD = 0]

---------------------------------------------------------------------------
(* Ingest: addOrUpdateRecordInMap for one data record.                     *)
(* latest: when the incoming end equals the stored end the property lets   *)
(* the common fields follow either record, so both choices are behaviours. *)

Ingest(r, latest) ==
  LET k    == r.key
      need == NeedsCorrelation(r)
      fs   == IF need THEN FromSrc(r.sp, r.dp) ELSE TRUE
      fd   == IF need THEN ~FromSrc(r.sp, r.dp) ELSE TRUE
  IN
  IF k \notin Held THEN
    /\ latest
    /\ LET f0 == NewFlow(r, fs, fd)
           f  == IF need THEN f0 ELSE [f0 EXCEPT !.ready = TRUE, !.filled = (r.ftype # InterNode)]
       IN /\ flows' = FnPut(flows, k, f)
          /\ queue' = queue \cup {[key |-> k, act |-> now + ActiveT, inact |-> now + InactiveT]}
          /\ hist' = FnPut(hist, k, HNew(r, fs, fd))
    /\ UNCHANGED now
  ELSE
    LET f    == flows[k]
        f1   == IF need /\ ~f.ready /\ ~SameNode(r, f)
                  THEN [Correlate(f, r) EXCEPT !.ready = TRUE, !.filled = TRUE] ELSE f
        prev == IF fd THEN (IF f.endD = 0 THEN r.start ELSE f.endD) ELSE (IF f.endS = 0 THEN r.start ELSE f.endS)
        it   == ItemOf(k)
    IN /\ latest \in (IF r.end = f.end THEN {TRUE, FALSE} ELSE {r.end > f.end})
       /\ flows' = [flows EXCEPT ![k] = Aggregate(f1, r, fs, fd, latest)]
       /\ queue' = (queue \ {it}) \cup {[it EXCEPT !.inact = now + InactiveT]}
       /\ hist' = [hist EXCEPT ![k] = HAdd(@, r, fs, fd, r.end <= prev)]
       /\ UNCHANGED now

\* A record that lacks one of the configured non-statistics elements (flowEndReason) for a flow that is held
\* (modelled for single-stream flows): the code takes over the end times, then misses the element and returns
\* an error - before the statistics and before the expiry queue are touched.  A record that is not newer than
\* its node's last one is ignored without error before the element is looked for.
IngestLacking(r, err) ==
  LET k == r.key IN
  /\ k \in Held /\ ~NeedsCorrelation(r)
  /\ LET f    == flows[k]
         prev == IF f.endD = 0 THEN r.start ELSE f.endD
         it   == ItemOf(k)
     IN /\ err = (r.end > prev)
        /\ flows' = [flows EXCEPT ![k] = [f EXCEPT !.end = IF r.end >= f.end THEN r.end ELSE f.end,
                                                   !.endS = r.end, !.endD = r.end]]
        /\ queue' = IF err THEN queue ELSE (queue \ {it}) \cup {[it EXCEPT !.inact = now + InactiveT]}
        /\ hist' = [hist EXCEPT ![k] = [@ EXCEPT !.stale = TRUE]]     \* outside the arithmetic statement from here on
  /\ UNCHANGED now

Advance(d) == now' = now + d /\ UNCHANGED << flows, queue, hist >>

\* ResetStatAndThroughputElementsInRecord on key k (done by the application under the lock)
ResetFlow(f) == [f EXCEPT
        !.com = [i \in 1..NStats |-> IF i \in DeltaIdx THEN 0 ELSE @[i]],
        !.frS = [i \in 1..NStats |-> IF i \in DeltaIdx THEN 0 ELSE @[i]],
        !.frD = [i \in 1..NStats |-> IF i \in DeltaIdx THEN 0 ELSE @[i]],
        !.tp = Zero2, !.tpS = Zero2, !.tpD = Zero2]
ResetStats(k) ==
  /\ k \in Held
  /\ flows' = [flows EXCEPT ![k] = ResetFlow(@)]
  /\ hist' = [hist EXCEPT ![k] = HReset(@)]
  /\ UNCHANGED << now, queue >>

---------------------------------------------------------------------------
(* Expiry scan: ForAllExpiredFlowRecordsDo holds the mutex for the whole   *)
(* loop, so it is one action.  order = the keys of the expired items in    *)
(* the order the heap yields them (earliest deadline first; items with     *)
(* equal deadlines in any order); fail = keys whose callback returns an    *)
(* error.  The result: [flows, queue, calls, err].                         *)

Expired(it) == ~(it.act > now /\ it.inact > now)
ExpiredKeys == { it.key : it \in { x \in queue : Expired(x) } }
IsPermOf(s, S) == Len(s) = Cardinality(S) /\ { s[i] : i \in 1..Len(s) } = S
Sorted(order) == \A i \in 1..(Len(order) - 1) : MinT(ItemOf(order[i])) <= MinT(ItemOf(order[i + 1]))
ValidOrder(order) == IsPermOf(order, ExpiredKeys) /\ Sorted(order)

ScanStep(st, k) ==
  IF st.err THEN st
  ELSE
    LET it == CHOOSE x \in st.queue : x.key = k
        f  == st.flows[k] IN
    IF ~f.ready THEN
      IF f.retries + 1 > MaxRetries
        THEN [st EXCEPT !.flows = FnDel(@, k), !.queue = @ \ {it}]
        ELSE [st EXCEPT !.flows = [@ EXCEPT ![k] = [f EXCEPT !.retries = f.retries + 1]],
                        !.queue = (@ \ {it}) \cup {[it EXCEPT !.act = now + ActiveT, !.inact = now + InactiveT]}]
    ELSE IF k \in st.fail
      THEN [st EXCEPT !.err = TRUE, !.calls = Append(@, k)]                 \* item stays queued: not stranded
    ELSE IF it.inact <= now
      THEN [st EXCEPT !.calls = Append(@, k), !.flows = FnDel(@, k), !.queue = @ \ {it}]
      ELSE [st EXCEPT !.calls = Append(@, k),
                      !.queue = (@ \ {it}) \cup {[it EXCEPT !.act = IF it.act <= now THEN now + ActiveT ELSE @]}]

ScanResult(order, fail) ==
  FoldLeft(ScanStep, [flows |-> flows, queue |-> queue, calls |-> << >>, err |-> FALSE, fail |-> fail], order)

Scan(order, fail, res) ==
  /\ ValidOrder(order)
  /\ res = ScanResult(order, fail)
  /\ flows' = res.flows
  /\ queue' = res.queue
  /\ hist' = [k \in DOMAIN res.flows |-> hist[k]]
  /\ UNCHANGED now

\* The usual application callback: export the record, then reset its delta / throughput fields
\* (ResetStatAndThroughputElementsInRecord under the lock); a failing callback resets nothing.
ScanAndReset(order, fail, res) ==
  /\ ValidOrder(order)
  /\ res = ScanResult(order, fail)
  /\ LET ok == { res.calls[i] : i \in 1..Len(res.calls) } \ fail IN
       /\ flows' = [k \in DOMAIN res.flows |-> IF k \in ok THEN ResetFlow(res.flows[k]) ELSE res.flows[k]]
       /\ hist' = [k \in DOMAIN res.flows |-> IF k \in ok THEN HReset(hist[k]) ELSE hist[k]]
  /\ queue' = res.queue
  /\ UNCHANGED now

\* queries (no effect)
NumFlows == Cardinality(Held)
\* advertised time to the next expiry, in units: MinExpiryTime after the earliest deadline; when that instant has
\* passed (real time is strictly later than the virtual instant, hence <=) the code answers MinExpiryTime itself -
\* so the answer is not monotonic in the lateness when MinU > 0, which is what the code does. With MinU = 0 (the
\* default 100 ms against units of an hour) this is Max2(0, m - now).
NextExpiryOf(q, t) == IF q = {} THEN (IF ActiveT < InactiveT THEN ActiveT ELSE InactiveT)
                      ELSE LET ms == { MinT(it) : it \in q }
                               m  == CHOOSE x \in ms : \A y \in ms : x <= y
                           IN IF MinU + m - t <= 0 THEN MinU ELSE MinU + m - t
NextExpiry == NextExpiryOf(queue, now)

---------------------------------------------------------------------------
(* C06 / C07 invariants *)
\* every held flow has exactly one queued entry and every entry refers to a held flow
Agreement == /\ \A k \in Held : Cardinality({ it \in queue : it.key = k }) = 1
             /\ \A it \in queue : it.key \in Held
\* a correlated / ready flow is complete
ReadyComplete == \A k \in Held : LET f == flows[k] IN
   (f.ready /\ f.ftype = InterNode /\ ~IsDeny(f.egress) /\ ~IsReject(f.ingress)) => (f.filled /\ f.sp # "" /\ f.dp # "")
RetriesBounded == \A k \in Held : flows[k].retries <= MaxRetries

(* C05 invariants, declarative, over the history *)
SumDelta(s, from, i) == FoldLeft(LAMBDA acc, r : acc + r.vals[i], 0, SubSeq(s, from, Len(s)))
NodeOK(f, recs, since, fr, tpv) ==
  recs # << >> =>
    /\ \A i \in (1..NStats) \ DeltaIdx : fr[i] = Last(recs).vals[i]                       \* totals: latest value
    /\ \A i \in DeltaIdx : fr[i] = SumDelta(recs, Len(recs) - since + 1, i)               \* deltas: sum since reset
    /\ since > 0 =>
         \A j \in 1..2 :
            LET lr == Last(recs)
                pt == IF Len(recs) = 1 THEN 0 ELSE recs[Len(recs) - 1].vals[TputOf[j]]
                pe == IF Len(recs) = 1 THEN lr.start ELSE recs[Len(recs) - 1].end
            IN tpv[j] = Tput(lr.vals[TputOf[j]] - pt, lr.end - pe)
    /\ since = 0 => tpv = Zero2
ArithmeticOK ==
  \A k \in Held : ~hist[k].stale =>
    LET f == flows[k]
        h == hist[k] IN
      /\ NodeOK(f, h.recsS, h.srS, f.frS, f.tpS)
      /\ NodeOK(f, h.recsD, h.srD, f.frD, f.tpD)
      /\ f.end = FoldLeft(LAMBDA acc, r : Max2(acc, r.end), 0, h.recsS \o h.recsD)         \* latest end time
      /\ \/ (f.com = [i \in 1..NStats |-> IF i \in DeltaIdx THEN f.frS[i] ELSE f.com[i]] /\ f.tp = f.tpS /\ f.endS = f.end)
         \/ (f.com = [i \in 1..NStats |-> IF i \in DeltaIdx THEN f.frD[i] ELSE f.com[i]] /\ f.tp = f.tpD /\ f.endD = f.end)
         \/ (h.srS = 0 /\ h.srD = 0 /\ \A i \in DeltaIdx : f.com[i] = 0)                   \* just reset
=============================================================================
