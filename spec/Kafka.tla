-------------------------------- MODULE Kafka --------------------------------
(***************************************************************************)
(* Kafka publication (pkg/kafka/producer): every IPFIX message handed to   *)
(* the producer yields one Kafka message per data record, in record order, *)
(* on the configured topic; template messages yield nothing.  A payload is *)
(* a 4-byte big-endian length followed by exactly that many bytes of       *)
(* protobuf whose fields are the record's values (per the mapping below,   *)
(* which is the schema's contract) plus export time, sequence number,      *)
(* observation domain and exporter address of the message.                 *)
(***************************************************************************)
EXTENDS Integers, Sequences, FiniteSets

VARIABLES pending,     \* expected Kafka messages not yet seen: sequence of [nums, strs]
          npub, nout   \* history: messages published / Kafka messages seen
kvars == << pending, npub, nout >>

\* IPFIX element name -> protobuf field name
NumMap == [ flowStartSeconds |-> "TimeFlowStartInSecs", flowEndSeconds |-> "TimeFlowEndInSecs",
            sourceTransportPort |-> "SrcPort", destinationTransportPort |-> "DstPort", protocolIdentifier |-> "Proto",
            packetTotalCount |-> "PacketsTotal", octetTotalCount |-> "BytesTotal", packetDeltaCount |-> "PacketsDelta",
            octetDeltaCount |-> "BytesDelta", reversePacketTotalCount |-> "ReversePacketsTotal",
            reverseOctetTotalCount |-> "ReverseBytesTotal", reversePacketDeltaCount |-> "ReversePacketsDelta",
            reverseOctetDeltaCount |-> "ReverseBytesDelta", destinationServicePort |-> "DstServicePort" ]
StrMap == [ sourceIPv4Address |-> "SrcIP", sourceIPv6Address |-> "SrcIP", destinationIPv4Address |-> "DstIP",
            destinationIPv6Address |-> "DstIP", sourcePodNamespace |-> "SrcPodNamespace", sourcePodName |-> "SrcPodName",
            sourceNodeName |-> "SrcNodeName", destinationPodNamespace |-> "DstPodNamespace",
            destinationPodName |-> "DstPodName", destinationNodeName |-> "DstNodeName",
            destinationClusterIPv4 |-> "DstClusterIP", destinationClusterIPv6 |-> "DstClusterIP",
            destinationServicePortName |-> "DstServicePortName", ingressNetworkPolicyName |-> "IngressPolicyName",
            ingressNetworkPolicyNamespace |-> "IngressPolicyNamespace", egressNetworkPolicyName |-> "EgressPolicyName",
            egressNetworkPolicyNamespace |-> "EgressPolicyNamespace" ]
NumFields == { NumMap[n] : n \in DOMAIN NumMap } \cup {"TimeReceived", "SequenceNumber", "ObsDomainID",
                                                        "TimeFlowStartInMilliSecs", "TimeFlowEndInMilliSecs", "FlowEndReason"}
StrFields == { StrMap[n] : n \in DOMAIN StrMap } \cup {"ExportAddress", "TcpState"}

\* the protobuf fields one record of message m must produce (absent = the protobuf default)
ExpNum(m, r, f) ==
  CASE f = "TimeReceived" -> m.time [] f = "SequenceNumber" -> m.seq [] f = "ObsDomainID" -> m.dom
    [] OTHER -> LET src == { n \in DOMAIN r.nums : n \in DOMAIN NumMap /\ NumMap[n] = f } IN
                IF src = {} THEN 0 ELSE r.nums[CHOOSE n \in src : TRUE]
ExpStr(m, r, f) ==
  IF f = "ExportAddress" THEN m.addr
  ELSE LET src == { n \in DOMAIN r.strs : n \in DOMAIN StrMap /\ StrMap[n] = f } IN
       IF src = {} THEN "" ELSE r.strs[CHOOSE n \in src : TRUE]
Expected(m, r) == [nums |-> [f \in NumFields |-> ExpNum(m, r, f)], strs |-> [f \in StrFields |-> ExpStr(m, r, f)]]

KInit == pending = << >> /\ npub = 0 /\ nout = 0

\* a message is handed to the producer: a template contributes nothing, a data message one entry per record
Publish(m) ==
  /\ pending' = IF m.kind = "template" THEN pending
                ELSE pending \o [i \in 1..Len(m.recs) |-> Expected(m, m.recs[i])]
  /\ npub' = npub + 1 /\ UNCHANGED nout

GetNum(o, f) == IF f \in DOMAIN o.nums THEN o.nums[f] ELSE 0
GetStr(o, f) == IF f \in DOMAIN o.strs THEN o.strs[f] ELSE ""
FieldsMatch(o, e) == /\ \A f \in NumFields : GetNum(o, f) = e.nums[f]
                     /\ \A f \in StrFields : GetStr(o, f) = e.strs[f]
                     /\ DOMAIN o.nums \subseteq NumFields /\ DOMAIN o.strs \subseteq StrFields

\* one Kafka message appears: it is the next expected one
Out(o) == /\ pending # << >> /\ FieldsMatch(o, Head(pending))
          /\ pending' = Tail(pending) /\ nout' = nout + 1 /\ UNCHANGED npub
=============================================================================
