-------------------------------- MODULE Kafka --------------------------------
(***************************************************************************)
(* Kafka publication (pkg/kafka/producer): every IPFIX message handed to   *)
(* the producer yields one Kafka message per data record, in record order, *)
(* on the configured topic; template messages yield nothing.  A payload is *)
(* a 4-byte big-endian length followed by exactly that many bytes of       *)
(* protobuf whose fields are the record's values (per the mapping below,   *)
(* which is the schema's contract) plus export time, sequence number,      *)
(* observation domain and exporter address of the message.                 *)
(***************************************************************************)
EXTENDS Integers, Sequences, FiniteSets

VARIABLES pending,     \* expected Kafka messages not yet seen: sequence of [nums, strs]
          npub, nout   \* history: messages published / Kafka messages seen
kvars == << pending, npub, nout >>

\* IPFIX element name -> protobuf field name
NumMap == [ flowStartSeconds |-> "TimeFlowStartInSecs", flowEndSeconds |-> "TimeFlowEndInSecs",
            sourceTransportPort |-> "SrcPort", destinationTransportPort |-> "DstPort", protocolIdentifier |-> "Proto",
            packetTotalCount |-> "PacketsTotal", octetTotalCount |-> "BytesTotal", packetDeltaCount |-> "PacketsDelta",
            octetDeltaCount |-> "BytesDelta", reversePacketTotalCount |-> "ReversePacketsTotal",
            reverseOctetTotalCount |-> "ReverseBytesTotal", reversePacketDeltaCount |-> "ReversePacketsDelta",
            reverseOctetDeltaCount |-> "ReverseBytesDelta", destinationServicePort |-> "DstServicePort" ]
StrMap == [ sourceIPv4Address |-> "SrcIP", sourceIPv6Address |-> "SrcIP", destinationIPv4Address |-> "DstIP",
            destinationIPv6Address |-> "DstIP", sourcePodNamespace |-> "SrcPodNamespace", sourcePodName |-> "SrcPodName",
            sourceNodeName |-> "SrcNodeName", destinationPodNamespace |-> "DstPodNamespace",
            destinationPodName |-> "DstPodName", destinationNodeName |-> "DstNodeName",
            destinationClusterIPv4 |-> "DstClusterIP", destinationClusterIPv6 |-> "DstClusterIP",
            destinationServicePortName |-> "DstServicePortName", ingressNetworkPolicyName |-> "IngressPolicyName",
            ingressNetworkPolicyNamespace |-> "IngressPolicyNamespace", egressNetworkPolicyName |-> "EgressPolicyName",
            egressNetworkPolicyNamespace |-> "EgressPolicyNamespace" ]
NumFields == { NumMap[n] : n \in DOMAIN NumMap } \cup {"TimeReceived", "SequenceNumber", "ObsDomainID",
                                                        "TimeFlowStartInMilliSecs", "TimeFlowEndInMilliSecs", "FlowEndReason"}
StrFields == { StrMap[n] : n \in DOMAIN StrMap } \cup {"ExportAddress", "TcpState"}

\* the protobuf fields one record of message m must produce (absent = the protobuf default)
ExpNum(m, r, f) ==
  CASE f = "TimeReceived" -> m.time [] f = "SequenceNumber" -> m.seq [] f = "ObsDomainID" -> m.dom
    [] OTHER -> LET src == { n \in DOMAIN r.nums : n \in DOMAIN NumMap /\ NumMap[n] = f } IN
                IF src = {} THEN 0 ELSE r.nums[CHOOSE n \in src : TRUE]
ExpStr(m, r, f) ==
  IF f = "ExportAddress" THEN m.addr
  ELSE LET src == { n \in DOMAIN r.strs : n \in DOMAIN StrMap /\ StrMap[n] = f } IN
       IF src = {} THEN << >> ELSE r.strs[CHOOSE n \in src : TRUE]
Expected(m, r) == [nums |-> [f \in NumFields |-> ExpNum(m, r, f)], strs |-> [f \in StrFields |-> ExpStr(m, r, f)]]

---------------------------------------------------------------------------
(* Protobuf wire format (the subset the schemas use: varint and length-delimited fields), as a pure   *)
(* operator over bytes, and the field numbers of the shipped .proto schemas.  String values are byte  *)
(* sequences throughout (TLC cannot convert between strings and bytes).                               *)
FieldNo == [ TimeReceived |-> 1, SequenceNumber |-> 2, ObsDomainID |-> 3, TimeFlowStartInSecs |-> 4, TimeFlowEndInSecs |-> 5,
             SrcIP |-> 6, DstIP |-> 7, SrcPort |-> 8, DstPort |-> 9, Proto |-> 10, PacketsTotal |-> 11, BytesTotal |-> 12,
             PacketsDelta |-> 13, BytesDelta |-> 14, ReversePacketsTotal |-> 15, ReverseBytesTotal |-> 16,
             ReversePacketsDelta |-> 17, ReverseBytesDelta |-> 18, SrcPodName |-> 19, SrcPodNamespace |-> 20,
             SrcNodeName |-> 21, DstPodName |-> 22, DstPodNamespace |-> 23, DstNodeName |-> 24, DstClusterIP |-> 25,
             DstServicePortName |-> 26, TimeFlowStartInMilliSecs |-> 27, TimeFlowEndInMilliSecs |-> 28,
             IngressPolicyName |-> 29, IngressPolicyNamespace |-> 30, EgressPolicyName |-> 31, EgressPolicyNamespace |-> 32,
             ExportAddress |-> 33, DstServicePort |-> 34, FlowEndReason |-> 35, TcpState |-> 36 ]
NameOfNo(n) == CHOOSE f \in DOMAIN FieldNo : FieldNo[f] = n
KnownNo(n) == \E f \in DOMAIN FieldNo : FieldNo[f] = n

\* varint at 1-based position p of b: [ok, val, next]; values are kept below 2^31
Varint(b, p) ==
  LET RECURSIVE V(_, _, _)
      V(q, k, acc) ==
        IF q > Len(b) \/ k > 4 THEN [ok |-> FALSE, val |-> 0, next |-> q]
        ELSE LET c == b[q]
                 mul == CASE k = 0 -> 1 [] k = 1 -> 128 [] k = 2 -> 16384 [] k = 3 -> 2097152 [] OTHER -> 268435456
             IN IF k = 4 /\ (c % 128) > 7 THEN [ok |-> FALSE, val |-> 0, next |-> q]
                ELSE IF c < 128 THEN [ok |-> TRUE, val |-> acc + c * mul, next |-> q + 1]
                ELSE V(q + 1, k + 1, acc + (c % 128) * mul)
  IN V(p, 0, 0)

\* the whole payload: [ok, nums, strs] with nums : field name -> value, strs : field name -> bytes
ParsePB(b) ==
  LET RECURSIVE P(_, _, _)
      P(p, nums, strs) ==
        IF p > Len(b) THEN [ok |-> TRUE, nums |-> nums, strs |-> strs]
        ELSE LET key == Varint(b, p) IN
          IF ~key.ok \/ ~KnownNo(key.val \div 8) THEN [ok |-> FALSE, nums |-> nums, strs |-> strs]
          ELSE LET name == NameOfNo(key.val \div 8)
                   wt == key.val % 8 IN
            IF wt = 0 THEN
              LET v == Varint(b, key.next) IN
              IF ~v.ok \/ name \notin NumFields THEN [ok |-> FALSE, nums |-> nums, strs |-> strs]
              ELSE P(v.next, [x \in DOMAIN nums \cup {name} |-> IF x = name THEN v.val ELSE nums[x]], strs)
            ELSE IF wt = 2 THEN
              LET n == Varint(b, key.next) IN
              IF ~n.ok \/ n.next + n.val - 1 > Len(b) \/ name \notin StrFields THEN [ok |-> FALSE, nums |-> nums, strs |-> strs]
              ELSE P(n.next + n.val, nums,
                     [x \in DOMAIN strs \cup {name} |-> IF x = name THEN SubSeq(b, n.next, n.next + n.val - 1) ELSE strs[x]])
            ELSE [ok |-> FALSE, nums |-> nums, strs |-> strs]
  IN P(1, [x \in {} |-> 0], [x \in {} |-> << >>])

KInit == pending = << >> /\ npub = 0 /\ nout = 0

\* a message is handed to the producer: a template contributes nothing, a data message one entry per record
Publish(m) ==
  /\ pending' = IF m.kind = "template" THEN pending
                ELSE pending \o [i \in 1..Len(m.recs) |-> Expected(m, m.recs[i])]
  /\ npub' = npub + 1 /\ UNCHANGED nout

GetNum(o, f) == IF f \in DOMAIN o.nums THEN o.nums[f] ELSE 0
GetStr(o, f) == IF f \in DOMAIN o.strs THEN o.strs[f] ELSE << >>
FieldsMatch(o, e) == /\ \A f \in NumFields : GetNum(o, f) = e.nums[f]
                     /\ \A f \in StrFields : GetStr(o, f) = e.strs[f]
                     /\ DOMAIN o.nums \subseteq NumFields /\ DOMAIN o.strs \subseteq StrFields

\* one Kafka message appears: it is the next expected one
Out(o) == /\ pending # << >> /\ FieldsMatch(o, Head(pending))
          /\ pending' = Tail(pending) /\ nout' = nout + 1 /\ UNCHANGED npub
=============================================================================
