------------------------------- MODULE UdpIdle -------------------------------
(***************************************************************************)
(* Observable behaviour of the UDP collector's per-source clients          *)
(* (pkg/collector/udp.go; design-level mechanics in UdpClients.tla).       *)
(* Outside the listed properties: spec growth bound to the code with a     *)
(* shortened idle timeout (the 1800 s constant is replaced in a build      *)
(* overlay generated from the working tree's udp.go at check time).        *)
(*                                                                         *)
(* A source's datagrams are handed to "its" client goroutine, which is     *)
(* created on first sight and leaves after Idle without a decodable        *)
(* datagram.  What an exporter and the consumer can rely on:               *)
(*  - while a source keeps sending (well within Idle) nothing is lost or   *)
(*    reordered; only a datagram that races with the idle exit of its      *)
(*    client ("gray": sent when the client may be leaving) may be dropped; *)
(*  - an idle client really leaves (the connection count drops), and the   *)
(*    source is served again by a fresh client when it comes back;         *)
(*  - one source's client leaving never blocks the other sources;          *)
(*  - after Stop nothing remains.                                          *)
(*                                                                         *)
(* The harness knows, from its own clock and generous margins, when a      *)
(* source is certainly active, possibly expiring (Gray), certainly expired *)
(* (Quiet); these phase changes are events of the model, so no time        *)
(* appears in it.                                                          *)
(***************************************************************************)
EXTENDS Integers, Sequences, FiniteSets

CONSTANT Srcs
VARIABLES pend,      \* source -> datagrams written and not yet delivered / dropped: sequence of [i, gray]
          live,      \* sources that certainly have a registered client
          gray,      \* sources whose client may be leaving right now (membership in live is then unknown)
          stopped
uvars == << pend, live, gray, stopped >>

UInit == pend = [s \in Srcs |-> << >>] /\ live = {} /\ gray = {} /\ stopped = FALSE

\* the source writes datagram i (flagged gray by the harness iff the source is in its gray phase)
Send(s, i) == /\ pend' = [pend EXCEPT ![s] = Append(@, [i |-> i, gray |-> s \in gray])]
              /\ UNCHANGED << live, gray, stopped >>

AllGray(q) == \A k \in 1..Len(q) : q[k].gray
\* the consumer receives datagram i of source s: the oldest pending one, except that gray ones ahead of it
\* may have been dropped at the hand-off to a leaving client
Deliver(s, i) ==
  /\ ~stopped
  /\ \E k \in 1..Len(pend[s]) :
       /\ pend[s][k].i = i /\ AllGray(SubSeq(pend[s], 1, k - 1))
       /\ pend' = [pend EXCEPT ![s] = SubSeq(@, k + 1, Len(@))]
  /\ live' = live \cup {s}               \* delivered by a client that is registered (ticker reset)
  /\ UNCHANGED << gray, stopped >>

\* the source has been silent for almost Idle: from now on its client may leave
EnterGray(s) == s \notin gray /\ gray' = gray \cup {s} /\ UNCHANGED << pend, live, stopped >>
\* the source has been silent for well over Idle: its client has left, whatever was pending was dropped
\* (only gray datagrams can be pending), and n registered clients remain
Quiet(s, n) ==
  /\ s \in gray /\ AllGray(pend[s])
  /\ pend' = [pend EXCEPT ![s] = << >>]
  /\ live' = live \ {s} /\ gray' = gray \ {s}
  /\ n = Cardinality(live')                                    \* the count is exact when no other source is gray
       \/ gray' # {}
  /\ UNCHANGED stopped

\* connection count observed while no source is gray
Conns(n) == gray = {} /\ n = Cardinality(live) /\ UNCHANGED uvars

Stop == /\ ~stopped /\ stopped' = TRUE /\ live' = {} /\ gray' = {}
        /\ pend' = [s \in Srcs |-> << >>]
\* after Stop: leaked goroutines 0
End(leaked) == stopped /\ leaked = 0 /\ UNCHANGED uvars

\* --- invariants of the model itself
TypeOK == live \subseteq Srcs /\ gray \subseteq Srcs /\ stopped \in BOOLEAN
\* gray datagrams exist only while their source is gray
GrayOnlyInGray == \A s \in Srcs : s \notin gray => \A k \in 1..Len(pend[s]) : ~pend[s][k].gray
=============================================================================
