------------------------------ MODULE WorkerPool ------------------------------
(***************************************************************************)
(* The aggregation process's built-in worker pool (pkg/intermediate        *)
(* worker.go, Start / Stop in aggregate.go).  Each worker loops            *)
(*     select { <-errChan: return ; msg := <-messageChan: job(msg) }       *)
(* where job = AggregateMsgByFlowKey takes the process mutex per record.   *)
(* Stop takes the SAME mutex, sends on every worker's unbuffered errChan   *)
(* while holding it, releases it, then signals Start.                      *)
(*                                                                         *)
(* Design-level model (no listed property speaks about Stop of the pool).  *)
(* TLC shows that Stop can deadlock: a worker that has taken a message but *)
(* not yet the mutex waits for the mutex, Stop holds the mutex and waits   *)
(* for that worker to receive from errChan.  Recorded in DESIGN.md as an   *)
(* observation; the configuration WorkerPoolMC_deadlock.cfg expects the    *)
(* violation (so a future repair of the library shows up as a changed      *)
(* model result, not silently).                                            *)
(***************************************************************************)
EXTENDS Integers, Sequences, FiniteSets

CONSTANTS Workers, NMsgs

VARIABLES
  chan,      \* messages waiting in messageChan (number)
  wk,        \* worker -> "idle" | "hasMsg" (took a message, wants the mutex) | "inJob" (holds the mutex) | "stopped"
  mutex,     \* "free" | a worker | "stop"
  stopPc,    \* "no" | "locked" | "unlocked" | "done"
  told       \* workers that have received the stop signal

wpvars == << chan, wk, mutex, stopPc, told >>

WPInit == chan = NMsgs /\ wk = [w \in Workers |-> "idle"] /\ mutex = "free" /\ stopPc = "no" /\ told = {}

Take(w)    == wk[w] = "idle" /\ chan > 0 /\ chan' = chan - 1 /\ wk' = [wk EXCEPT ![w] = "hasMsg"] /\ UNCHANGED << mutex, stopPc, told >>
Lock(w)    == wk[w] = "hasMsg" /\ mutex = "free" /\ mutex' = w /\ wk' = [wk EXCEPT ![w] = "inJob"] /\ UNCHANGED << chan, stopPc, told >>
Unlock(w)  == wk[w] = "inJob" /\ mutex' = "free" /\ wk' = [wk EXCEPT ![w] = "idle"] /\ UNCHANGED << chan, stopPc, told >>
StopLock   == stopPc = "no" /\ mutex = "free" /\ mutex' = "stop" /\ stopPc' = "locked" /\ UNCHANGED << chan, wk, told >>
\* errChan is unbuffered: the send completes only when the worker is back at its select
StopTell(w) == stopPc = "locked" /\ w \notin told /\ wk[w] = "idle"
               /\ told' = told \cup {w} /\ wk' = [wk EXCEPT ![w] = "stopped"] /\ UNCHANGED << chan, mutex, stopPc >>
StopUnlock == stopPc = "locked" /\ told = Workers /\ mutex' = "free" /\ stopPc' = "done" /\ UNCHANGED << chan, wk, told >>

WPNext == (\E w \in Workers : Take(w) \/ Lock(w) \/ Unlock(w) \/ StopTell(w)) \/ StopLock \/ StopUnlock
WPSpec == WPInit /\ [][WPNext]_wpvars
WPFair == WPSpec /\ WF_wpvars(WPNext)

MutexOK == Cardinality({ w \in Workers : wk[w] = "inJob" }) <= 1 /\ ((\E w \in Workers : wk[w] = "inJob") => mutex # "stop")
\* what one would want: a Stop that has begun completes
StopCompletes == (stopPc = "locked") ~> (stopPc = "done")
=============================================================================
