------------------------------ MODULE Exporter ------------------------------
(***************************************************************************)
(* Sequential exporting process (pkg/exporter): template table, sequence   *)
(* counter, sanity and size checks, one message per successful SendSet.    *)
(* One action per SendSet outcome class.  Messages are real RFC 7011 bytes *)
(* (Wire.tla).                                                             *)
(*                                                                         *)
(* A set handed to SendSet is [stype, hdrId, recs] with                    *)
(*   recs = << [kind, tid, fields, vals] >>  (vals = <<>> for templates)   *)
(***************************************************************************)
EXTENDS Wire

CONSTANT MaxLen            \* 65535 in the code; small in the exhaustive model

VARIABLES
  tmpl,      \* template table: function tid -> [fields, minLen]   (first registration wins)
  seq,       \* sequence counter, limbs <<hi, lo>>
  dom,       \* observation domain, limbs
  okRecs,    \* history: number of records in successfully transmitted data messages (limbs)
  failAdv,   \* history: how much failed sends advanced the counter (deviation, see SendDataFailsLate)
  nmsg,      \* history: number of messages transmitted
  open,      \* connection usable
  nextTid,   \* last template id handed out by NewTemplateID (starts at 255)
  jsonMode   \* the process sends JSON records instead of IPFIX messages (fixed at creation)

exvars == << tmpl, seq, dom, okRecs, failAdv, nmsg, open, nextTid, jsonMode >>

EmptyFn == [x \in {} |-> 0]
Known(t) == t \in DOMAIN tmpl

ExInit(d, s0) == /\ tmpl = EmptyFn /\ seq = s0 /\ dom = d /\ okRecs = s0 /\ failAdv = 0 /\ nmsg = 0 /\ open = TRUE
                 /\ nextTid = 255 /\ jsonMode = FALSE

SetRecBytes(s) == Flat([i \in 1..Len(s.recs) |-> RecBytes(s.recs[i])])
SetBytes(s) == BE2(s.hdrId) \o BE2(SetHdrLen + Len(SetRecBytes(s))) \o SetRecBytes(s)
\* length by arithmetic on the reported record lengths (no bytes are built)
MsgLen(s) == MsgHdrLen + SetHdrLen + FoldLeft(LAMBDA acc, r : acc + RecLen(r), 0, s.recs)
MsgBytes(s, time, sq) == EncMessage(time, sq, dom, SetBytes(s))

\* registering the template records of a set, in order; an id already present is kept
Register(t0, recs) ==
  FoldLeft(LAMBDA t, r :
             IF r.tid \in DOMAIN t THEN t
             ELSE [x \in DOMAIN t \cup {r.tid} |->
                     IF x = r.tid THEN [fields |-> r.fields, minLen |-> MinRecLen(r.fields)] ELSE t[x]],
           t0, recs)

\* the exporter's sanity check of one data record
RecValuesOK(r) == \A j \in 1..Len(r.fields) : ValueOK(r.fields[j], r.vals[j])
\* (the set id in the header is the template the collector will use: it must be known, also for
\*  an empty set, and every record must have been built for it)
Sane(s, r) == /\ r.tid = s.hdrId
              /\ Len(r.fields) = Len(tmpl[r.tid].fields)
              /\ RecValuesOK(r)
              /\ RecLen(r) >= tmpl[r.tid].minLen
AllSane(s) == Known(s.hdrId) /\ \A i \in 1..Len(s.recs) : Sane(s, s.recs[i])

---------------------------------------------------------------------------
\* SendSet on a set whose type is undefined: error, no effect.
SendUndefined == UNCHANGED exvars

\* Template set, fits: registers, transmits exactly one message, counter unchanged.
SendTemplateOK(s) ==
  /\ open /\ s.stype = "template" /\ MsgLen(s) <= MaxLen
  /\ tmpl' = Register(tmpl, s.recs)
  /\ nmsg' = nmsg + 1
  /\ UNCHANGED << seq, dom, okRecs, failAdv, open, nextTid, jsonMode >>

\* Template set, too long: error, nothing transmitted (the table is updated all the same).
SendTemplateTooLong(s) ==
  /\ s.stype = "template" /\ MsgLen(s) > MaxLen
  /\ tmpl' = Register(tmpl, s.recs)
  /\ UNCHANGED << seq, dom, okRecs, failAdv, nmsg, open, nextTid, jsonMode >>

\* Data set failing the sanity check: error, nothing transmitted, nothing changes.
SendDataInsane(s) == s.stype = "data" /\ ~AllSane(s) /\ UNCHANGED exvars

\* Data set, sane and fits: counter advances by the record count, one message.
SendDataOK(s) ==
  /\ open /\ s.stype = "data" /\ AllSane(s) /\ MsgLen(s) <= MaxLen
  /\ seq' = AddLimbs(seq, Len(s.recs))
  /\ okRecs' = AddLimbs(okRecs, Len(s.recs))
  /\ nmsg' = nmsg + 1
  /\ UNCHANGED << tmpl, dom, failAdv, open, nextTid, jsonMode >>

\* DEVIATION (named): a sane data set that is too long (or hits a closed connection) fails AFTER
\* the counter was advanced.  The property excludes failed attempts from the sequence statement;
\* the code's behaviour is modelled so that later messages of such a session still validate.
SendDataFailsLate(s) ==
  /\ s.stype = "data" /\ AllSane(s) /\ (MsgLen(s) > MaxLen \/ ~open)
  /\ seq' = AddLimbs(seq, Len(s.recs))
  /\ failAdv' = failAdv + Len(s.recs)
  /\ UNCHANGED << tmpl, dom, okRecs, nmsg, open, nextTid, jsonMode >>

\* DEVIATION (named), environment: the transport refuses the write (UDP: the collector's port is closed and the
\* kernel reports "connection refused", possibly for an earlier datagram).  The set had passed every check: the
\* template table / the counter were already updated, nothing reaches the collector, SendSet returns an error.
\* The property speaks of successful sends only; this keeps later messages of such a session checkable.
SendRefused(s) ==
  /\ open
  /\ \/ /\ s.stype = "data" /\ AllSane(s) /\ MsgLen(s) <= MaxLen
        /\ seq' = AddLimbs(seq, Len(s.recs)) /\ failAdv' = failAdv + Len(s.recs)
        /\ UNCHANGED << tmpl, dom, okRecs, nmsg, open, nextTid, jsonMode >>
     \/ /\ s.stype = "template" /\ MsgLen(s) <= MaxLen
        /\ tmpl' = Register(tmpl, s.recs)
        /\ UNCHANGED << seq, dom, okRecs, failAdv, nmsg, open, nextTid, jsonMode >>

Close == open' = FALSE /\ UNCHANGED << tmpl, seq, dom, okRecs, failAdv, nmsg, nextTid, jsonMode >>

\* NewTemplateID: the next id, starting at 256 (16-bit counter)
NewTemplateID == /\ nextTid' = (nextTid + 1) % 65536
                 /\ UNCHANGED << tmpl, seq, dom, okRecs, failAdv, nmsg, open, jsonMode >>

\* JSON-record mode: a template set only updates the table (nothing is written, no error);
\* a sane data set produces one JSON document per record, in order; the counter is not involved.
SendJSONTemplate(s) ==
  /\ jsonMode /\ s.stype = "template"
  /\ tmpl' = Register(tmpl, s.recs)
  /\ UNCHANGED << seq, dom, okRecs, failAdv, nmsg, open, nextTid, jsonMode >>
SendJSONData(s) == jsonMode /\ s.stype = "data" /\ AllSane(s) /\ UNCHANGED exvars
SendJSONInsane(s) == jsonMode /\ s.stype = "data" /\ ~AllSane(s) /\ UNCHANGED exvars

---------------------------------------------------------------------------
(* Properties of the design *)
\* C08: as long as no attempt failed late, the counter is the number of records transmitted
SeqIsRecordCount == failAdv = 0 => seq = okRecs
=============================================================================
