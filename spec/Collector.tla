------------------------------ MODULE Collector ------------------------------
(***************************************************************************)
(* Collecting process, decode side (pkg/collector/process.go):             *)
(* template store keyed by (observation domain, template id), decoding of  *)
(* template sets and data sets, the three decoding modes.                  *)
(* One action per received message; its effect and its outcome are         *)
(* functions of the bytes (Wire.tla's reference parser) and the store.     *)
(*                                                                         *)
(* Modelled deviations of the code from RFC 7011 (no listed property       *)
(* speaks about them, they are named so traces that exhibit them validate):*)
(*   IgnoresLengths        header length and set length fields are not     *)
(*                         used: the set body is "everything after byte 20"*)
(*   FirstTemplateRecordOnly  only the first record of a template set is   *)
(*                         decoded, trailing bytes are ignored             *)
(*   RegistryLength        a known element is stored with the registry's   *)
(*                         length, not the length on the wire              *)
(***************************************************************************)
EXTENDS Wire

CONSTANTS RegFn        \* registry: function <<entb, id>> -> [id, entb, len, type, name]

VARIABLES store,       \* function <<dom, tid>> -> sequence of fields (as delivered)
          nmsg,        \* messages delivered so far (GetNumRecordsReceived counts messages)
          mode         \* "Strict" | "LenientKeepUnknown" | "LenientDropUnknown"; fixed per process

colvars == << store, nmsg, mode >>
Mode == mode
EmptyStore == [k \in {} |-> << >>]
CInit == store = EmptyStore /\ nmsg = 0

SupportedType(t) == t \in {"octetArray", "unsigned8", "unsigned16", "unsigned32", "unsigned64",
                           "signed8", "signed16", "signed32", "signed64", "float32", "float64",
                           "boolean", "macAddress", "string", "dateTimeSeconds", "dateTimeMilliseconds",
                           "ipv4Address", "ipv6Address"}

Known(sp) == << sp.entb, sp.id >> \in DOMAIN RegFn
\* the field the collector stores / delivers for one wire specifier
Resolve(sp) ==
  IF Known(sp) THEN LET e == RegFn[<< sp.entb, sp.id >>] IN
                    [id |-> e.id, entb |-> e.entb, len |-> e.len, type |-> e.type, name |-> e.name]
  ELSE [id |-> sp.id, entb |-> sp.entb, len |-> sp.len, type |-> "octetArray", name |-> ""]
Resolvable(sp, md) ==
  IF Known(sp) THEN SupportedType(RegFn[<< sp.entb, sp.id >>].type) ELSE md # "Strict"

IsUnknown(f) == f.name = ""

StoreDel(st, k) == [x \in DOMAIN st \ {k} |-> st[x]]
StorePut(st, k, v) == [x \in DOMAIN st \cup {k} |-> IF x = k THEN v ELSE st[x]]

\* What a data set body decodes to under a field list: [ok, recs, padding]
\*   ok      - the body is a whole number of records, possibly followed by padding shorter than
\*             the shortest record; nothing is decoded from a template whose records are empty
DecodeBody(body, fields) ==
  LET g    == ParseDataBody(body, fields)
      left == Len(body) - (g.next - 1)
      m    == MinRecLen(fields)
  IN [ok |-> left = 0 \/ (m > 0 /\ left < m), recs |-> g.recs, padding |-> left]

\* records as delivered in mode: the drop mode omits the values of unknown fields
Delivered(recs, fields, md) ==
  IF md # "LenientDropUnknown" THEN recs
  ELSE [i \in 1..Len(recs) |-> SelectSeq([j \in 1..Len(fields) |-> [v |-> recs[i][j], u |-> IsUnknown(fields[j])]],
                                         LAMBDA x : ~x.u)]
DeliveredVals(recs, fields, md) ==
  IF md # "LenientDropUnknown" THEN recs
  ELSE LET d == Delivered(recs, fields, md) IN [i \in 1..Len(d) |-> [j \in 1..Len(d[i]) |-> d[i][j].v]]
DeliveredFields(fields, md) ==
  IF md # "LenientDropUnknown" THEN fields ELSE SelectSeq(fields, LAMBDA f : ~IsUnknown(f))

---------------------------------------------------------------------------
(* Outcome of one received message: [kind, ...] and the next store.        *)
(* kind = "Err"  | "Tmpl" (tid, fields) | "Data" (tid, recs)               *)
(* For data sets that end in padding both "Err" and "Data" are allowed     *)
(* (the property allows padding, the code rejects it): alt = TRUE.         *)

Outcome(bytes) ==
  LET h == ParseHeader(bytes) IN
  IF ~h.ok \/ h.version # 10 THEN [kind |-> "Err", store |-> store, alt |-> FALSE]
  ELSE IF h.setId = TemplateSetId THEN
    LET p == ParseTemplateBody(h.body) IN
    IF ~p.idRead THEN [kind |-> "Err", store |-> store, alt |-> FALSE]                          \* fails before the id is read
    ELSE LET k == << h.dom, p.tid >> IN
      IF ~p.ok \/ \E i \in 1..Len(p.specs) : ~Resolvable(p.specs[i], Mode)
        THEN [kind |-> "Err", store |-> StoreDel(store, k), alt |-> FALSE]                       \* fails after: invalidates
        ELSE LET fs == [i \in 1..Len(p.specs) |-> Resolve(p.specs[i])] IN
             [kind |-> "Tmpl", tid |-> p.tid, fields |-> fs, store |-> StorePut(store, k, fs), alt |-> FALSE]
  ELSE
    LET k == << h.dom, h.setId >> IN
    IF k \notin DOMAIN store THEN [kind |-> "Err", store |-> store, alt |-> FALSE]
    ELSE LET fs == store[k]
             d  == DecodeBody(h.body, fs) IN
         IF ~d.ok THEN [kind |-> "Err", store |-> store, alt |-> FALSE]
         ELSE [kind |-> "Data", tid |-> h.setId, recs |-> DeliveredVals(d.recs, fs, Mode),
               rfields |-> DeliveredFields(fs, Mode), store |-> store, alt |-> d.padding > 0]

Recv(bytes, o) ==
  /\ UNCHANGED mode
  /\ store' = o.store
  /\ nmsg' = IF o.kind = "Err" THEN nmsg ELSE nmsg + 1
=============================================================================
