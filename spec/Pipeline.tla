------------------------------ MODULE Pipeline ------------------------------
(***************************************************************************)
(* End to end: Exporter -> channel -> Collector (C01).                     *)
(* The exporter side is Exporter.tla (template table, sequence counter).   *)
(* The channel holds what was transmitted and not yet delivered, in order: *)
(* TCP / TLS deliver the head only (no loss, no reordering); UDP / DTLS on *)
(* one socket pair may lose but never reorder or duplicate.  Delivery      *)
(* hands the consumer a message that must be THE SAME as what the          *)
(* application handed to the exporter: domain, sequence number, template   *)
(* fields (id, enterprise, type, length, name) in order, record count and  *)
(* every value.                                                            *)
(***************************************************************************)
EXTENDS Wire

CONSTANT MaxLen
VARIABLES tmpl, seq, dom, okRecs, failAdv, nmsg, open, nextTid, jsonMode,
          inflight,     \* sequence of [dom, seq, set] transmitted and not yet delivered or lost
          lossy         \* TRUE for UDP / DTLS

E == INSTANCE Exporter
plvars == << tmpl, seq, dom, okRecs, failAdv, nmsg, open, nextTid, jsonMode, inflight, lossy >>

PInit(d, l) == E!ExInit(d, <<0, 0>>) /\ inflight = << >> /\ lossy = l

Send(s) ==
  /\ (E!SendTemplateOK(s) \/ E!SendDataOK(s))
  /\ inflight' = Append(inflight, [dom |-> dom, seq |-> seq', set |-> s])
  /\ UNCHANGED lossy

SendFails(s) == (E!SendDataInsane(s) \/ E!SendDataFailsLate(s) \/ E!SendTemplateTooLong(s)) /\ UNCHANGED << inflight, lossy >>

FieldEq(a, b) == /\ a.id = b.id /\ EntB(a) = EntB(b) /\ a.len = b.len /\ a.type = b.type /\ a.name = b.name
FieldsEq(as, bs) == Len(as) = Len(bs) /\ \A i \in 1..Len(as) : FieldEq(as[i], bs[i])

\* is delivered message m (projection of what the consumer received) the same as transmitted x ?
Same(x, m) ==
  /\ m.dom = x.dom /\ m.seq = x.seq
  /\ IF x.set.stype = "template"
       THEN /\ m.kind = "Tmpl"
            /\ m.tid = x.set.recs[1].tid
            /\ FieldsEq(m.fields, x.set.recs[1].fields)
       ELSE /\ m.kind = "Data"
            /\ m.tid = x.set.hdrId
            /\ Len(m.recs) = Len(x.set.recs)                                   \* same number of records
            /\ \A i \in 1..Len(m.recs) : /\ m.recs[i] = x.set.recs[i].vals       \* every value bit-identical
                                          /\ FieldsEq(m.rfields[i], x.set.recs[i].fields)

Deliver(i, m) ==
  /\ i \in 1..Len(inflight)
  /\ lossy \/ i = 1
  /\ Same(inflight[i], m)
  /\ inflight' = SubSeq(inflight, i + 1, Len(inflight))
  /\ UNCHANGED << tmpl, seq, dom, okRecs, failAdv, nmsg, open, nextTid, jsonMode, lossy >>

Lose == lossy /\ inflight # << >> /\ inflight' = Tail(inflight)
        /\ UNCHANGED << tmpl, seq, dom, okRecs, failAdv, nmsg, open, nextTid, jsonMode, lossy >>

\* a reliable transport has delivered everything when the session ends
SessionEnd == (lossy \/ inflight = << >>) /\ UNCHANGED plvars
=============================================================================
