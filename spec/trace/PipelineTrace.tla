---------------------------- MODULE PipelineTrace ----------------------------
(* C01 - trace validation of a real exporting process connected to a real collecting process    *)
(* over tcp / udp / tls / dtls.  "ESend": what the application handed to SendSet (the            *)
(* generator's own values) and the result; "CDeliver": projection of the message the collector's *)
(* consumer received (typed getters); "End": the session is over.                                *)
EXTENDS Pipeline, TraceBase

VARIABLE l
vars == << plvars, l >>
ev == Log[l]
IsEvent(e) == l <= Len(Log) /\ Log[l].e = e /\ l' = l + 1

Init == PInit(<<0, 0>>, FALSE) /\ l = 1
TReset == /\ IsEvent("Reset")
          /\ tmpl' = E!EmptyFn /\ seq' = <<0, 0>> /\ dom' = ev.dom /\ okRecs' = <<0, 0>> /\ failAdv' = 0 /\ nmsg' = 0
          /\ open' = TRUE /\ nextTid' = 255 /\ jsonMode' = FALSE /\ inflight' = << >> /\ lossy' = ev.lossy

TSend == /\ IsEvent("ESend")
         /\ IF ev.err THEN SendFails(ev.set) ELSE Send(ev.set)
TDeliver == /\ IsEvent("CDeliver")
            /\ \E i \in 1..Len(inflight) : Deliver(i, ev.m)
TEnd == IsEvent("End") /\ SessionEnd

Next == TReset \/ TSend \/ TDeliver \/ TEnd
Spec == Init /\ [][Next]_vars
=============================================================================
