SPECIFICATION Spec
CONSTANT Cap = 4096
POSTCONDITION TraceAccepted
INVARIANT Bounded
INVARIANT MostRecentInOrder
CHECK_DEADLOCK FALSE
