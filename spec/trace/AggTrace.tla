------------------------------- MODULE AggTrace -------------------------------
(* C05 / C06 / C07 - trace validation of the aggregation process.  A trace is one real          *)
(* AggregationProcess driven sequentially; virtual time is the verif hook that shifts every     *)
(* queued deadline.  After every call the driver logs the projected state: every flow record    *)
(* (through GetRecords and the snapshot hook), the expiry heap array, GetNumFlows and           *)
(* GetExpiryFromExpirePriorityQueue.  TLC decides that the step is a step of Aggregation.tla.   *)
EXTENDS Aggregation, TraceBase

VARIABLE l
vars == << agvars, l >>
ev == Log[l]
IsEvent(e) == l <= Len(Log) /\ Log[l].e = e /\ l' = l + 1

Init == AgInit /\ l = 1
TReset == IsEvent("Reset") /\ now' = 0 /\ flows' = [k \in {} |-> 0] /\ queue' = {} /\ hist' = [k \in {} |-> 0]

\* ---- the logged snapshot as specification values
SnapFlows == [k \in { ev.flows[i].k : i \in DOMAIN ev.flows } |->
                LET s == ev.flows[CHOOSE i \in DOMAIN ev.flows : ev.flows[i].k = k] IN
                [ sp |-> s.sp, dp |-> s.dp, sns |-> s.sns, dns |-> s.dns, ftype |-> s.ftype, egress |-> s.egress,
                  ingress |-> s.ingress, prio |-> s.prio, cip |-> s.cip, start |-> s.start, end |-> s.end, endS |-> s.endS, endD |-> s.endD,
                  com |-> s.com, frS |-> s.frS, frD |-> s.frD, tp |-> s.tp, tpS |-> s.tpS, tpD |-> s.tpD,
                  reason |-> s.reason, ready |-> s.ready, retries |-> s.retries, filled |-> s.filled ]]
SnapQueue == { [key |-> ev.heap[i].k, act |-> ev.heap[i].act, inact |-> ev.heap[i].inact] : i \in DOMAIN ev.heap }

\* the binary heap is a refinement of the queue set: index fields, heap order, back pointers
HeapOK ==
  /\ \A i \in DOMAIN ev.heap : /\ ev.heap[i].index = i - 1 /\ ev.heap[i].pos = i - 1
                               /\ ev.heap[i].recsame /\ ev.heap[i].backptr
  /\ \A i \in 2..Len(ev.heap) : LET p == ev.heap[i \div 2]
                                    c == ev.heap[i] IN
        (IF p.act < p.inact THEN p.act ELSE p.inact) <= (IF c.act < c.inact THEN c.act ELSE c.inact)
  /\ Cardinality({ ev.heap[i].k : i \in DOMAIN ev.heap }) = Len(ev.heap)

Obs == /\ flows' = SnapFlows
       /\ queue' = SnapQueue
       /\ HeapOK
       /\ ev.now = now'
       /\ ev.numflows = Cardinality(DOMAIN flows')
       /\ ev.expiry = NextExpiryOf(queue', now')

TIngest == /\ IsEvent("Ingest") /\ ~ev.err
           /\ \E latest \in BOOLEAN : Ingest(ev.r, latest)
           /\ Obs
\* a record of a multi-record message: the state in between is not observable (the choice is settled by the
\* snapshot that follows the last record of the message)
TIngestPart == IsEvent("IngestPart") /\ \E latest \in BOOLEAN : Ingest(ev.r, latest)
TAdvance == IsEvent("Advance") /\ Advance(ev.d) /\ Obs
TResetStats == IsEvent("ResetStats") /\ ResetStats(ev.k) /\ Obs

Perms(S) == { s \in [1..Cardinality(S) -> S] : \A i, j \in 1..Cardinality(S) : i # j => s[i] # s[j] }
FailSet == { ev.fail[i] : i \in DOMAIN ev.fail }
TScan == /\ IsEvent("Scan")
         /\ \E order \in Perms(ExpiredKeys) :
              LET res == ScanResult(order, FailSet) IN
                /\ Scan(order, FailSet, res)
                /\ res.calls = ev.calls           \* callbacks: exactly these flows, in this order
                /\ res.err = ev.err
         /\ Obs

Next == TReset \/ TIngest \/ TIngestPart \/ TAdvance \/ TResetStats \/ TScan
Spec == Init /\ [][Next]_vars
=============================================================================
