SPECIFICATION Spec
CONSTANT ActiveT = 20
CONSTANT InactiveT = 30
CONSTANT MaxRetries = 1
CONSTANT MinU = 5
POSTCONDITION TraceAccepted
INVARIANT Agreement
INVARIANT ReadyComplete
INVARIANT RetriesBounded
INVARIANT ArithmeticOK
CHECK_DEADLOCK FALSE
