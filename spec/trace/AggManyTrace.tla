---------------------------- MODULE AggManyTrace ----------------------------
(* Events: Reset, NewFlows{n0, n1} (flows n0..n1 ingested, one record each), PassAll, ScanAll{calls, ncalls, left, queued}. *)
EXTENDS AggMany, TraceBase
VARIABLE l
ev == Log[l]
IsEvent(e) == l <= Len(Log) /\ Log[l].e = e /\ l' = l + 1
Init == MInit /\ l = 1
TReset == IsEvent("Reset") /\ held' = {} /\ overdue' = FALSE
TNew == IsEvent("NewFlows") /\ NewFlows(ev.n0..ev.n1)
TPass == IsEvent("PassAll") /\ PassAll
TScan == IsEvent("ScanAll") /\ ScanAll({ ev.calls[i] : i \in DOMAIN ev.calls }, Len(ev.calls), ev.left, ev.queued)
Next == TReset \/ TNew \/ TPass \/ TScan
Spec == Init /\ [][Next]_<<mvars, l>>
=============================================================================
