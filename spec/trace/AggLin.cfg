SPECIFICATION Spec
CONSTANT ActiveT = 2
CONSTANT InactiveT = 3
CONSTANT MaxRetries = 1
CONSTANT MinU = 0
INVARIANT NotAllDone
CONSTRAINT Mark
POSTCONDITION Report
CHECK_DEADLOCK FALSE
ALIAS Small
VIEW LinView
