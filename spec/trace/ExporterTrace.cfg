SPECIFICATION Spec
CONSTANT MaxLen = 65535
POSTCONDITION TraceAccepted
INVARIANT SeqIsRecordCount
CHECK_DEADLOCK FALSE
