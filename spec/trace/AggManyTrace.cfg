SPECIFICATION Spec
POSTCONDITION TraceAccepted
CHECK_DEADLOCK FALSE
