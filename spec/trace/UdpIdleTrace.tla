---------------------------- MODULE UdpIdleTrace ----------------------------
(* Trace validation of the UDP collector's per-source clients against UdpIdle.tla.  Events (all logged  *)
(* by the harness): Send{s,i}, Deliver{s,i}, Gray{s}, SendBad{s,n}, Quiet{s,n}, Conns{n}, Stop, End{leaked}; Lost{s,i}  *)
(* (a non-gray datagram not delivered within 5 s), Stuck (Stop did not return) and Race have no action.    *)
EXTENDS UdpIdle, TraceBase
VARIABLE l
ev == Log[l]
IsEvent(e) == l <= Len(Log) /\ Log[l].e = e /\ l' = l + 1
Init == UInit /\ l = 1
TReset == IsEvent("Reset") /\ pend' = [s \in Srcs |-> << >>] /\ live' = {} /\ gray' = {} /\ stopped' = FALSE
TSend == IsEvent("Send") /\ Send(ev.s, ev.i)
TDeliver == IsEvent("Deliver") /\ Deliver(ev.s, ev.i)
TGray == IsEvent("Gray") /\ EnterGray(ev.s)
\* a burst of undecodable datagrams from a gray source: nothing is delivered, nothing else changes
TSendBad == IsEvent("SendBad") /\ ev.s \in gray /\ UNCHANGED uvars
TQuiet == IsEvent("Quiet") /\ Quiet(ev.s, ev.n)
TConns == IsEvent("Conns") /\ Conns(ev.n)
TStop == IsEvent("Stop") /\ Stop
TEnd == IsEvent("End") /\ End(ev.leaked)
Next == TReset \/ TSend \/ TDeliver \/ TGray \/ TSendBad \/ TQuiet \/ TConns \/ TStop \/ TEnd
Spec == Init /\ [][Next]_<<uvars, l>>
=============================================================================
