SPECIFICATION Spec
CONSTANT Srcs = {1, 2, 3, 4, 5, 6, 7, 8}
POSTCONDITION TraceAccepted
CHECK_DEADLOCK FALSE
