---------------------------- MODULE C05BigTrace ----------------------------
(* C05, counters beyond TLC's integers: one intra-node flow per trace whose octet counters lie between     *)
(* 2^40 and 2^60.  After every record the driver logs the record's end time and octet totals (as four      *)
(* 16-bit limbs, least significant first) and the aggregate's octet totals and throughput fields as        *)
(* GetRecords returns them; TLC recomputes growth, 8 x growth and the division on limbs (BigArith.tla),    *)
(* exactly as Aggregation.tla states them on small integers.                                                *)
EXTENDS BigArith, TraceBase
VARIABLES have, lastEnd, lastOct, l
vars == << have, lastEnd, lastOct, l >>
ev == Log[l]
IsEvent(e) == l <= Len(Log) /\ Log[l].e = e /\ l' = l + 1
Init == have = FALSE /\ lastEnd = 0 /\ lastOct = << ZeroL, ZeroL >> /\ l = 1
TReset == IsEvent("Reset") /\ have' = FALSE /\ lastEnd' = 0 /\ lastOct' = << ZeroL, ZeroL >>

\* expected throughput pair (forward, reverse) of this record
Expected == IF ~have THEN << TputL(ev.oct[1], ev.end - ev.start), TputL(ev.oct[2], ev.end - ev.start) >>
            ELSE << TputL(SubL(ev.oct[1], lastOct[1]), ev.end - lastEnd), TputL(SubL(ev.oct[2], lastOct[2]), ev.end - lastEnd) >>
TBig ==
  /\ IsEvent("Big") /\ ~ev.err
  /\ \A j \in 1..2 : IsL4(ev.oct[j]) /\ GeL(ev.oct[j], lastOct[j])        \* the contract: totals never decrease
  /\ ev.end > lastEnd
  /\ ev.com = ev.oct                                                      \* aggregate totals follow the record
  /\ ev.tp = Expected /\ ev.tpS = Expected /\ ev.tpD = Expected           \* one reporting stream fills both nodes' fields
  /\ have' = TRUE /\ lastEnd' = ev.end /\ lastOct' = ev.oct
Next == TReset \/ TBig
Spec == Init /\ [][Next]_vars
=============================================================================
