------------------------------ MODULE C14Trace ------------------------------
(* C14 - trace validation of the exporter's background activity and lifecycle.                   *)
(* UDP: a real exporter (refresh interval 1 s) sends to a raw UDP peer; one application          *)
(* goroutine logs SendBegin / SendEnd around each SendSet, the peer logs every datagram (Recv),  *)
(* closer goroutines log CloseBegin / CloseEnd, and after the last CloseEnd the harness sends a  *)
(* marker datagram from another socket: any exporter datagram read after the marker was written  *)
(* after Close returned.  Every datagram must be, byte for byte, either the next pending         *)
(* application message or a refresh of a template the application has sent.                      *)
(* TCP: the peer closes; sends attempted well after the check interval must fail.                *)
EXTENDS Exporter, TraceBase

VARIABLES appQ,       \* application messages written (or being written) and not yet seen at the peer
          refreshed,  \* template id -> number of refresh datagrams seen
          firstMs,    \* template id -> time (ms) of the first successful send
          closeMs,    \* time of the first CloseBegin (-1: none)
          marked,     \* the marker datagram was read: silence from here on
          peerGone,   \* TCP: time (ms) the peer closed (-1: not)
          lastQ,      \* whether the SendSet in progress queued a message
          seqLog,     \* values the sequence counter has held since the value the last refresh datagram carried
          proto, l
vars == << exvars, appQ, refreshed, firstMs, closeMs, marked, peerGone, lastQ, seqLog, proto, l >>
ev == Log[l]
IsEvent(e) == l <= Len(Log) /\ Log[l].e = e /\ l' = l + 1

CheckSlackMs == 600      \* >= 10 x the configured check interval (50 ms)
RefreshMs == 1000

Init == ExInit(<<0, 0>>, <<0, 0>>) /\ appQ = << >> /\ refreshed = EmptyFn /\ firstMs = EmptyFn /\ closeMs = -1
        /\ marked = FALSE /\ peerGone = -1 /\ lastQ = FALSE /\ seqLog = << <<0, 0>> >> /\ proto = "udp" /\ l = 1
TReset == /\ IsEvent("Reset")
          /\ tmpl' = EmptyFn /\ seq' = <<0, 0>> /\ dom' = ev.dom /\ okRecs' = <<0, 0>> /\ failAdv' = 0 /\ nmsg' = 0 /\ open' = TRUE /\ nextTid' = 255 /\ jsonMode' = FALSE
          /\ appQ' = << >> /\ refreshed' = EmptyFn /\ firstMs' = EmptyFn /\ closeMs' = -1 /\ marked' = FALSE /\ peerGone' = -1 /\ lastQ' = FALSE /\ seqLog' = << <<0, 0>> >>
          /\ proto' = ev.proto

Bump(f, k, v) == [x \in DOMAIN f \cup {k} |-> IF x = k THEN v ELSE f[x]]

\* the application enters SendSet: the table / counter effects happen now, the write may follow
TSendBegin ==
  /\ IsEvent("SendBegin")
  /\ LET s == ev.set IN
       \/ /\ (SendTemplateOK(s) \/ SendDataOK(s))
          /\ appQ' = Append(appQ, [set |-> s, seq |-> seq', before |-> seq])
          /\ firstMs' = IF s.stype = "template" /\ s.recs[1].tid \notin DOMAIN firstMs
                          THEN Bump(firstMs, s.recs[1].tid, ev.ms) ELSE firstMs
          /\ lastQ' = TRUE
       \/ /\ (SendDataInsane(s) \/ SendTemplateTooLong(s)) /\ UNCHANGED << appQ, firstMs >> /\ lastQ' = FALSE
  /\ seqLog' = IF seq' # seq THEN Append(seqLog, seq') ELSE seqLog
  /\ UNCHANGED << refreshed, closeMs, marked, peerGone, proto >>

\* SendSet returned.  ok: the byte count is the message length.  err: nothing was written for it.
TSendEnd ==
  /\ IsEvent("SendEnd")
  /\ IF ev.err
       THEN /\ appQ' = IF lastQ THEN SubSeq(appQ, 1, Len(appQ) - 1) ELSE appQ
            /\ (lastQ => (closeMs >= 0 \/ peerGone >= 0))          \* a valid send fails only around a close
       ELSE /\ lastQ /\ UNCHANGED appQ
            /\ ((proto = "tcp" /\ peerGone >= 0) => ev.ms0 - peerGone < CheckSlackMs)      \* TCP: close noticed within the check interval
  /\ UNCHANGED << exvars, refreshed, firstMs, closeMs, marked, peerGone, proto, lastQ, seqLog >>

TimeOK(bytes) == \E t \in (ev.sec - 3)..ev.sec : SubSeq(bytes, 5, 8) = BE4(t)
\* The refresher reads the counter without a lock and writes later: a refresh datagram carries a value the
\* counter held at some moment since the value the previous refresh datagram carried (its reads are ordered).
SeqIdx(v) == { i \in DOMAIN seqLog : seqLog[i] = v }
MinOf(S) == CHOOSE i \in S : \A j \in S : i <= j

\* what the application message q looks like on the wire with the export time the datagram carries
AppBytes(q) == EncMessage(U16(ev.bytes, 5) * 65536 + U16(ev.bytes, 7), q.seq, dom, SetBytes(q.set))
\* while the peer was away, application messages were lost: a datagram may be a LATER pending message
LaterIdx == IF peerGone < 0 THEN {} ELSE { i \in 2..Len(appQ) : ev.bytes = AppBytes(appQ[i]) }
TRecv ==
  /\ IsEvent("Recv") /\ ~marked
  /\ TimeOK(ev.bytes)
  /\ IF appQ # << >> /\ ev.bytes = AppBytes(Head(appQ))
       THEN \* the next application message, whole.  (A refresh with exactly these bytes written just before it is
            \* indistinguishable; taking the datagram as the application's leaves the later state the same.)
            appQ' = Tail(appQ) /\ UNCHANGED << refreshed, seqLog >>
       ELSE IF LaterIdx # {}
       THEN appQ' = SubSeq(appQ, MinOf(LaterIdx) + 1, Len(appQ)) /\ UNCHANGED << refreshed, seqLog >>
       ELSE LET tid == U16(ev.bytes, 21)                                   \* a refresh of a template sent so far, whole
                sq == ToLimbs(ev.bytes, 9) IN
            /\ Len(ev.bytes) >= 24 /\ U16(ev.bytes, 17) = TemplateSetId
            /\ tid \in DOMAIN tmpl
            /\ SeqIdx(sq) # {}
            /\ ev.bytes = EncMessage(U16(ev.bytes, 5) * 65536 + U16(ev.bytes, 7), sq, dom,
                                     EncTemplateSet(tid, tmpl[tid].fields))
            /\ refreshed' = Bump(refreshed, tid, (IF tid \in DOMAIN refreshed THEN refreshed[tid] ELSE 0) + 1)
            /\ seqLog' = SubSeq(seqLog, MinOf(SeqIdx(sq)), Len(seqLog))
            /\ UNCHANGED appQ
  /\ UNCHANGED << exvars, firstMs, closeMs, marked, peerGone, proto, lastQ >>

TCloseBegin == /\ IsEvent("CloseBegin") /\ closeMs' = (IF closeMs < 0 THEN ev.ms ELSE closeMs)
               /\ UNCHANGED << exvars, appQ, refreshed, firstMs, marked, peerGone, proto, lastQ, seqLog >>
TCloseEnd == IsEvent("CloseEnd") /\ closeMs >= 0 /\ UNCHANGED << exvars, appQ, refreshed, firstMs, closeMs, marked, peerGone, proto, lastQ, seqLog >>
TMark == IsEvent("Mark") /\ marked' = TRUE /\ UNCHANGED << exvars, appQ, refreshed, firstMs, closeMs, peerGone, proto, lastQ, seqLog >>
TPeerClose == IsEvent("PeerClose") /\ peerGone' = ev.ms /\ UNCHANGED << exvars, appQ, refreshed, firstMs, closeMs, marked, proto, lastQ, seqLog >>

\* end of run: everything written was seen, and every template was refreshed each interval (one round of slack)
TEnd ==
  /\ IsEvent("End")
  /\ (proto = "udp" /\ peerGone < 0) => /\ appQ = << >>
                      /\ \A tid \in DOMAIN firstMs :
                           (IF tid \in DOMAIN refreshed THEN refreshed[tid] ELSE 0) >= ((closeMs - firstMs[tid]) \div RefreshMs) - 1
  /\ ev.leaked = 0                                                       \* no goroutine of the exporter is left
  /\ UNCHANGED << exvars, appQ, refreshed, firstMs, closeMs, marked, peerGone, proto, lastQ, seqLog >>

Next == TReset \/ TSendBegin \/ TSendEnd \/ TRecv \/ TCloseBegin \/ TCloseEnd \/ TMark \/ TPeerClose \/ TEnd
Spec == Init /\ [][Next]_vars
=============================================================================
