-------------------------------- MODULE AggLin --------------------------------
(***************************************************************************)
(* C13 - linearizability of the aggregation process.                       *)
(* Input: recorded concurrent histories of a real AggregationProcess, one  *)
(* per line: {"ops": [ {kind, args, result, inv, ret}, ... ]} with inv/ret *)
(* stamps from one atomic counter.  Aggregation.tla is the sequential      *)
(* specification.  Lin(i) linearizes operation i next: allowed when every  *)
(* operation that RETURNED before i was INVOKED is already linearized, and *)
(* the specification, applied to the current abstract state, produces      *)
(* exactly the recorded result.  Histories are chained; reaching the end   *)
(* (violation of NotAllDone) means a linearization exists for every one.   *)
(* A completed search without that violation means some history has none.  *)
(***************************************************************************)
EXTENDS Aggregation, TLC, TLCExt, Json, IOUtils

Hists == ndJsonDeserialize(IOEnv.TRACE)
VARIABLES h, done
vars == << agvars, h, done >>

Ops == Hists[h].ops
Perms(S) == { s \in [1..Cardinality(S) -> S] : \A i, j \in 1..Cardinality(S) : i # j => s[i] # s[j] }

FlowOf(s) == [ sp |-> s.sp, dp |-> s.dp, sns |-> s.sns, dns |-> s.dns, ftype |-> s.ftype, egress |-> s.egress,
               ingress |-> s.ingress, prio |-> s.prio, cip |-> s.cip, start |-> s.start, end |-> s.end, endS |-> s.endS, endD |-> s.endD,
               com |-> s.com, frS |-> s.frS, frD |-> s.frD, tp |-> s.tp, tpS |-> s.tpS, tpD |-> s.tpD,
               reason |-> s.reason, ready |-> s.ready, retries |-> s.retries, filled |-> s.filled ]
\* a projection that carries only the record's values (GetRecords) or values + ready/filled (export)
ValuesEq(s, f) == /\ s.sp = f.sp /\ s.dp = f.dp /\ s.sns = f.sns /\ s.dns = f.dns /\ s.ftype = f.ftype
                  /\ s.egress = f.egress /\ s.ingress = f.ingress /\ s.prio = f.prio /\ s.cip = f.cip /\ s.start = f.start /\ s.end = f.end
                  /\ s.endS = f.endS /\ s.endD = f.endD /\ s.com = f.com /\ s.frS = f.frS /\ s.frD = f.frD
                  /\ s.tp = f.tp /\ s.tpS = f.tpS /\ s.tpD = f.tpD /\ s.reason = f.reason
FlowsOf(list) == [k \in { list[i].k : i \in DOMAIN list } |-> FlowOf(list[CHOOSE i \in DOMAIN list : list[i].k = k])]

Do(op) ==
  CASE op.kind = "Ingest"   -> \E latest \in BOOLEAN : Ingest(op.r, latest)
    [] op.kind = "IngestLacking" -> IngestLacking(op.r, op.err)
    [] op.kind = "Advance"  -> Advance(op.d)
    [] op.kind = "Scan"     ->
         \E order \in Perms(ExpiredKeys) :
            LET fail == { op.fail[i] : i \in DOMAIN op.fail }
                res  == ScanResult(order, fail) IN
              /\ ScanAndReset(order, fail, res)
              /\ res.calls = op.calls /\ res.err = op.err
              \* every exported record is what the sequential execution holds at that point
              /\ \A i \in DOMAIN op.exports : /\ ValuesEq(op.exports[i], flows[op.calls[i]])
                                                /\ op.exports[i].ready = flows[op.calls[i]].ready
                                                /\ op.exports[i].filled = flows[op.calls[i]].filled
    [] op.kind = "NumFlows" -> UNCHANGED agvars /\ op.n = Cardinality(Held)
    [] op.kind = "Expiry"   -> UNCHANGED agvars /\ op.units = NextExpiry
    [] op.kind = "Get"      -> /\ UNCHANGED agvars
                               /\ op.found = (op.k \in Held)
                               /\ op.found => ValuesEq(op.flow, flows[op.k])
    [] op.kind = "GetAll"   -> UNCHANGED agvars /\ FlowsOf(op.flows) = flows
    [] op.kind = "GetAllQ"  -> /\ UNCHANGED agvars                               \* GetRecords without a filter: every flow, values only
                               /\ { op.flows[i].k : i \in DOMAIN op.flows } = Held
                               /\ Len(op.flows) = Cardinality(Held)
                               /\ \A i \in DOMAIN op.flows : ValuesEq(op.flows[i], flows[op.flows[i].k])
    [] op.kind = "Recheck"  -> UNCHANGED agvars /\ op.same      \* what a query returned earlier still reads the same at the end
    [] OTHER -> FALSE          \* monitor events (Race, Crash, Hang) have no sequential explanation

Lin(i) ==
  /\ i \notin done
  /\ \A j \in DOMAIN Ops : (j \notin done /\ j # i) => Ops[j].ret > Ops[i].inv      \* real-time order
  /\ Do(Ops[i])
  /\ done' = done \cup {i}
  /\ h' = h

NextHist ==
  /\ done = DOMAIN Ops
  /\ h' = h + 1 /\ done' = {}
  /\ now' = 0 /\ flows' = [k \in {} |-> 0] /\ queue' = {} /\ hist' = [k \in {} |-> 0]

Init == AgInit /\ h = 1 /\ done = {} /\ TLCSet(1, 1)
Next == h <= Len(Hists) /\ (NextHist \/ \E i \in DOMAIN Ops : Lin(i))
Spec == Init /\ [][Next]_vars

\* progress report: the furthest history reached (for naming the one without linearization)
Mark == TLCSet(1, IF TLCGet(1) < h THEN h ELSE TLCGet(1))
NotAllDone == h <= Len(Hists)
LinView == << now, flows, queue, h, done >>
Small == [h |-> h, ndone |-> Cardinality(done)]
Report == PrintT(<<"LIN_HIGH_WATER", TLCGet(1), Len(Hists)>>)
=============================================================================
