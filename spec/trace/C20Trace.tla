------------------------------ MODULE C20Trace ------------------------------
(* C20 - trace validation of the standalone collector's store, driven in-package (the driver   *)
(* file is injected with go's -overlay): addIPFIXMessage, the /records and /reset handlers     *)
(* through httptest.  Arrival ids travel in the observation domain id.                         *)
EXTENDS Store, TraceBase
VARIABLE l
vars == << svars, l >>
ev == Log[l]
IsEvent(e) == l <= Len(Log) /\ Log[l].e = e /\ l' = l + 1
Init == SInit /\ l = 1
TReset == IsEvent("Reset") /\ ev.cap = Cap /\ win' = << >> /\ arrivals' = << >>

\* every field of every record appears, by element name and value, in the rendered entry
Rendered ==
  /\ Len(ev.got) = Len(ev.want)
  /\ \A i \in DOMAIN ev.want : \A j \in DOMAIN ev.want[i] :
        \E q \in DOMAIN ev.got[i] : ev.got[i][q].name = ev.want[i][j].name /\ ev.got[i][q].val = ev.want[i][j].val
TArrive == IsEvent("Arrive") /\ Arrive(ev.id) /\ Rendered /\ ev.stored = Len(win')

\* a burst received through the collector's own receive loop: stored in the order received
TArriveBatch == /\ IsEvent("ArriveBatch")
                /\ LET all == win \o ev.ids IN
                     win' = (IF Len(all) > Cap THEN LastN(all, Cap) ELSE all)
                /\ arrivals' = arrivals \o ev.ids
                /\ ev.stored = Len(win')
TQuery == /\ IsEvent("Query") /\ Query
          /\ ev.status = QueryStatus(ev.method, ev.count, ev.format)
          /\ ev.status = 200 => ev.ids = QueryResult(ev.count)
TResetReq == /\ IsEvent("ResetReq") /\ ResetReq(ev.method)
             /\ ev.status = ResetStatus(ev.method) /\ ev.stored = Len(win')
Next == TReset \/ TArrive \/ TArriveBatch \/ TQuery \/ TResetReq
Spec == Init /\ [][Next]_vars
=============================================================================
