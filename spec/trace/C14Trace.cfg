SPECIFICATION Spec
CONSTANT MaxLen = 65535
POSTCONDITION TraceAccepted
CHECK_DEADLOCK FALSE
