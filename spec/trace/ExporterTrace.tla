---------------------------- MODULE ExporterTrace ----------------------------
(* C02 / C08 / C09 - trace validation of the sequential exporter.  A trace is one real          *)
(* ExportingProcess connected to a raw peer socket owned by the harness; after every SendSet    *)
(* the harness reads what arrived at the peer (exactly the reported byte count over TCP, one    *)
(* datagram over UDP) and logs it.  TLC decides wire = EncMessage(...) byte for byte.           *)
EXTENDS Exporter, TraceBase

VARIABLE l
vars == << exvars, l >>
ev == Log[l]
IsEvent(e) == l <= Len(Log) /\ Log[l].e = e /\ l' = l + 1

Init == ExInit(<<0, 0>>, <<0, 0>>) /\ l = 1

TReset ==
  /\ IsEvent("Reset")
  /\ tmpl' = EmptyFn /\ seq' = ev.seq0 /\ dom' = ev.dom /\ okRecs' = ev.seq0
  /\ failAdv' = 0 /\ nmsg' = 0 /\ open' = TRUE /\ nextTid' = 255
  /\ jsonMode' = (IF Has(ev, "json") THEN ev.json ELSE FALSE)

\* C02: the independent parser reads the same thing back from the bytes on the wire
WellFormed(s, w) ==
  LET h == ParseHeader(w) IN
    /\ h.ok /\ h.version = 10 /\ h.length = Len(w)
    /\ h.setLen = Len(w) - MsgHdrLen                       \* exactly one set covering the rest
    /\ h.dom = dom
    /\ IF s.stype = "template"
         THEN /\ h.setId = TemplateSetId
              /\ LET p == ParseTemplateBody(h.body)
                     f == s.recs[1].fields IN
                   /\ p.ok /\ p.tid = s.recs[1].tid /\ Len(p.specs) = Len(f)
                   /\ \A i \in 1..Len(f) : /\ p.specs[i].id = f[i].id /\ p.specs[i].len = f[i].len
                                            /\ p.specs[i].entb = BE4(f[i].ent)
                   /\ (Len(s.recs) = 1 => p.next = Len(h.body) + 1)
                   \* further template records follow back to back
                   /\ (Len(s.recs) = 2 =>
                         LET q == ParseTemplateBody(SubSeq(h.body, p.next, Len(h.body))) IN
                           /\ q.ok /\ q.tid = s.recs[2].tid /\ Len(q.specs) = Len(s.recs[2].fields)
                           /\ q.next = Len(h.body) - (p.next - 1) + 1)
         ELSE /\ h.setId = s.hdrId
              /\ ExactDecode(h.body, tmpl'[s.hdrId].fields, [i \in 1..Len(s.recs) |-> s.recs[i].vals])

Quiet == ev.err /\ ev.wire = << >>
\* exactly one message, the reported byte count is its length, export time within the call
Transmitted(s) == /\ ~ev.err
                  /\ ev.ret = Len(ev.wire)
                  /\ \E t \in ev.t0..ev.t1 : ev.wire = MsgBytes(s, t, seq')
                  /\ WellFormed(s, ev.wire)

TSend ==
  /\ IsEvent("Send") /\ ~jsonMode
  /\ LET s == ev.set IN
       \/ s.stype = "undef" /\ SendUndefined /\ Quiet /\ ev.ret = 0
       \/ SendTemplateOK(s) /\ Transmitted(s)
       \/ SendTemplateTooLong(s) /\ Quiet
       \/ SendDataInsane(s) /\ Quiet /\ ev.ret = 0
       \/ SendDataOK(s) /\ Transmitted(s)
       \/ SendDataFailsLate(s) /\ Quiet
       \* the harness had closed the collector's socket (ev.away): a write may vanish, or be refused
       \/ Has(ev, "away") /\ ev.away /\ ~ev.err /\ ev.wire = << >> /\ ev.ret = MsgLen(s)
            /\ (SendTemplateOK(s) \/ SendDataOK(s))
       \* "connection refused" (also for the first write after the collector came back: the error is an earlier datagram's)
       \/ Has(ev, "refused") /\ ev.refused /\ SendRefused(s) /\ Quiet

\* JSON-record mode: ev.docs = the documents read back from the peer (field name -> text of the value),
\* ev.want = the same as produced by the harness from the values it generated
TJSend ==
  /\ IsEvent("Send") /\ jsonMode
  /\ LET s == ev.set IN
       \/ s.stype = "undef" /\ SendUndefined /\ ev.err
       \/ SendJSONTemplate(s) /\ ~ev.err /\ ev.ret = 0 /\ ev.docs = << >>
       \/ SendJSONInsane(s) /\ ev.err /\ ev.docs = << >>
       \/ /\ SendJSONData(s) /\ ~ev.err
          /\ Len(ev.docs) = Len(s.recs)                         \* one document per record, in order
          /\ \A i \in DOMAIN ev.docs : ev.docs[i] = ev.want[i]
          /\ ev.ret = ev.nbytes                                 \* reported byte count = bytes at the peer
TNewTid == IsEvent("NewTid") /\ NewTemplateID /\ ev.id = nextTid'

TClose == IsEvent("Close") /\ Close

\* nothing but the logged messages ever arrived at the peer
TQuiesce == IsEvent("Quiesce") /\ ev.extra = << >> /\ UNCHANGED exvars

Next == TReset \/ TSend \/ TJSend \/ TNewTid \/ TClose \/ TQuiesce
Spec == Init /\ [][Next]_vars
=============================================================================
