------------------------- MODULE TemplateLifeTrace -------------------------
(* C10 - trace validation of the UDP template lifetime.  The harness injects its own clock     *)
(* (verif hook): timers fire only when the schedule says so, and the callback's clock read     *)
(* blocks in the harness until the schedule lets it read (CbRead) and run (CbRun).  After      *)
(* every step the driver logs the real template store and the state of every harness timer.    *)
EXTENDS TemplateLife, TraceBase

VARIABLES l, rtlast       \* rtlast: real-time runs: key -> ms of the latest valid (re)transmission (-1: none)
vars == << tlvars, l, rtlast >>
ev == Log[l]
IsEvent(e) == l <= Len(Log) /\ Log[l].e = e /\ l' = l + 1

Init == TLInit /\ l = 1 /\ rtlast = [k \in Keys |-> -1]

TReset == /\ IsEvent("Reset")
          /\ now' = 0 /\ store' = [k \in Keys |-> None] /\ timers' = << >> /\ cbs' = << >>
          /\ last' = [k \in Keys |-> -1] /\ rtlast' = [k \in Keys |-> -1]

\* projection of the real state logged after the step
Obs ==
  /\ ev.now = now'
  /\ { s.k : s \in { ev.store[i] : i \in DOMAIN ev.store } } = { k \in Keys : store'[k] # None }
  /\ \A i \in DOMAIN ev.store : LET s == ev.store[i] IN
        /\ store'[s.k].ver = s.ver
        /\ store'[s.k].expiry = s.expiry
        /\ store'[s.k].obj = s.obj
  /\ Len(ev.timers) = Len(timers')
  /\ \A o \in DOMAIN ev.timers : /\ ev.timers[o].armed = timers'[o].armed
                                  /\ (timers'[o].armed => ev.timers[o].deadline = timers'[o].deadline)
  /\ ev.inflight = Len(cbs')

TTemplate    == IsEvent("Template") /\ ev.ok /\ Template(ev.k, ev.v) /\ Obs /\ UNCHANGED rtlast
TBadTemplate == IsEvent("BadTemplate") /\ ~ev.ok /\ BadTemplate(ev.k) /\ Obs /\ UNCHANGED rtlast
TData        == IsEvent("Data") /\ Data(ev.k) /\ ev.accepted = Accepts(ev.k) /\ Obs /\ UNCHANGED rtlast
TTick        == IsEvent("Tick") /\ Tick /\ Obs /\ UNCHANGED rtlast
TFire        == IsEvent("Fire") /\ Fire(ev.o) /\ Obs /\ UNCHANGED rtlast
TCbRead      == IsEvent("CbRead") /\ CbRead(ev.i) /\ Obs /\ UNCHANGED rtlast
TCbRun       == IsEvent("CbRun") /\ CbRun(ev.i) /\ Obs /\ UNCHANGED rtlast

(* Real-time binding (engine B'): the same collector with the REAL clock (time.AfterFunc) and a 1 s      *)
(* lifetime; events carry the wall-clock time in ms.  Only what is robust against scheduling jitter is   *)
(* asserted: a data set well inside the lifetime after the latest (re)transmission is accepted, one well *)
(* after it is rejected; in between either answer is allowed.                                           *)
RTSlack == 600
RTTtl == 1000
TRTemplate == /\ IsEvent("RTemplate") /\ ev.ok
              /\ rtlast' = [rtlast EXCEPT ![ev.k] = ev.ms]
              /\ UNCHANGED tlvars
TRBad == /\ IsEvent("RBadTemplate") /\ ~ev.ok
         /\ rtlast' = [rtlast EXCEPT ![ev.k] = -1]
         /\ UNCHANGED tlvars
TRData == /\ IsEvent("RData")
          /\ (rtlast[ev.k] < 0) => ~ev.accepted
          /\ (rtlast[ev.k] >= 0 /\ ev.ms1 < rtlast[ev.k] + RTTtl - RTSlack) => ev.accepted       \* not dropped early
          /\ (rtlast[ev.k] >= 0 /\ ev.ms0 > rtlast[ev.k] + RTTtl + RTSlack) => ~ev.accepted       \* discarded after its lifetime
          /\ UNCHANGED << tlvars, rtlast >>

Next == TRTemplate \/ TRBad \/ TRData \/ TReset \/ TTemplate \/ TBadTemplate \/ TData \/ TTick \/ TFire \/ TCbRead \/ TCbRun
Spec == Init /\ [][Next]_vars
=============================================================================
