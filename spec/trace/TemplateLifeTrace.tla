------------------------- MODULE TemplateLifeTrace -------------------------
(* C10 - trace validation of the UDP template lifetime.  The harness injects its own clock     *)
(* (verif hook): timers fire only when the schedule says so, and the callback's clock read     *)
(* blocks in the harness until the schedule lets it read (CbRead) and run (CbRun).  After      *)
(* every step the driver logs the real template store and the state of every harness timer.    *)
EXTENDS TemplateLife, TraceBase

VARIABLE l
vars == << tlvars, l >>
ev == Log[l]
IsEvent(e) == l <= Len(Log) /\ Log[l].e = e /\ l' = l + 1

Init == TLInit /\ l = 1

TReset == /\ IsEvent("Reset")
          /\ now' = 0 /\ store' = [k \in Keys |-> None] /\ timers' = << >> /\ cbs' = << >>
          /\ last' = [k \in Keys |-> -1]

\* projection of the real state logged after the step
Obs ==
  /\ ev.now = now'
  /\ { s.k : s \in { ev.store[i] : i \in DOMAIN ev.store } } = { k \in Keys : store'[k] # None }
  /\ \A i \in DOMAIN ev.store : LET s == ev.store[i] IN
        /\ store'[s.k].ver = s.ver
        /\ store'[s.k].expiry = s.expiry
        /\ store'[s.k].obj = s.obj
  /\ Len(ev.timers) = Len(timers')
  /\ \A o \in DOMAIN ev.timers : /\ ev.timers[o].armed = timers'[o].armed
                                  /\ (timers'[o].armed => ev.timers[o].deadline = timers'[o].deadline)
  /\ ev.inflight = Len(cbs')

TTemplate    == IsEvent("Template") /\ ev.ok /\ Template(ev.k, ev.v) /\ Obs
TBadTemplate == IsEvent("BadTemplate") /\ ~ev.ok /\ BadTemplate(ev.k) /\ Obs
TData        == IsEvent("Data") /\ Data(ev.k) /\ ev.accepted = Accepts(ev.k) /\ Obs
TTick        == IsEvent("Tick") /\ Tick /\ Obs
TFire        == IsEvent("Fire") /\ Fire(ev.o) /\ Obs
TCbRead      == IsEvent("CbRead") /\ CbRead(ev.i) /\ Obs
TCbRun       == IsEvent("CbRun") /\ CbRun(ev.i) /\ Obs

Next == TReset \/ TTemplate \/ TBadTemplate \/ TData \/ TTick \/ TFire \/ TCbRead \/ TCbRun
Spec == Init /\ [][Next]_vars
=============================================================================
