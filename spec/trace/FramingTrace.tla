---------------------------- MODULE FramingTrace ----------------------------
(* C11 - trace validation of TCP framing.  Events: "Seg" (logged BEFORE the harness writes the  *)
(* chunk), "Deliver" (logged by the consumer AFTER it received the message), "ClientClose",     *)
(* "End" (the connection handler returned / the collector dropped the connection).              *)
EXTENDS Wire, TraceBase

CONSTANT Conns
VARIABLES store, nmsg, mode, written, pos, cclosed, ended, l
vars == << store, nmsg, mode, written, pos, cclosed, ended, l >>

RegList == JsonDeserialize(IOEnv.REGISTRY)
RegKeys == { << RegList[i].entb, RegList[i].id >> : i \in DOMAIN RegList }
TraceRegFn == [x \in RegKeys |-> RegList[CHOOSE i \in DOMAIN RegList : << RegList[i].entb, RegList[i].id >> = x]]

F == INSTANCE Framing WITH RegFn <- TraceRegFn

ev == Log[l]
IsEvent(e) == l <= Len(Log) /\ Log[l].e = e /\ l' = l + 1

Init == F!FrInit("Strict") /\ l = 1

TReset == /\ IsEvent("Reset")
          /\ store' = F!C!EmptyStore /\ nmsg' = 0 /\ mode' = ev.mode
          /\ written' = [c \in Conns |-> << >>] /\ pos' = [c \in Conns |-> 0]
          /\ cclosed' = [c \in Conns |-> FALSE] /\ ended' = [c \in Conns |-> "no"]

FieldEq(a, b) == /\ a.id = b.id /\ a.entb = b.entb /\ a.len = b.len /\ a.type = b.type /\ a.name = b.name
FieldsEq(as, bs) == Len(as) = Len(bs) /\ \A i \in 1..Len(as) : FieldEq(as[i], bs[i])

\* the delivered message is the decoding of exactly the next frame of that connection
Matches(o) ==
  /\ ev.kind = o.kind
  /\ ev.dom = ParseHeader(F!NextFrame(ev.c).bytes).dom
  /\ ev.seq = ParseHeader(F!NextFrame(ev.c).bytes).seq
  /\ o.kind = "Tmpl" => ev.tid = o.tid /\ FieldsEq(ev.fields, o.fields)
  /\ o.kind = "Data" => ev.tid = o.tid /\ ev.recs = o.recs

TSeg == IsEvent("Seg") /\ F!Seg(ev.c, ev.chunk)
TClientClose == IsEvent("ClientClose") /\ F!ClientClose(ev.c)
TDeliver ==
  /\ IsEvent("Deliver")
  /\ F!NextFrame(ev.c) # F!NoFrame
  /\ LET o == F!C!Outcome(F!NextFrame(ev.c).bytes) IN F!Deliver(ev.c, o) /\ Matches(o)
TEnd == IsEvent("End") /\ (F!EndErr(ev.c) \/ F!EndEof(ev.c))
\* a delivered message is the consumer's: it still reads the same after later messages arrived
TRecheck == IsEvent("Recheck") /\ ev.same /\ UNCHANGED << store, nmsg, mode, written, pos, cclosed, ended >>

Next == TReset \/ TSeg \/ TClientClose \/ TDeliver \/ TEnd \/ TRecheck
Spec == Init /\ [][Next]_vars
=============================================================================
