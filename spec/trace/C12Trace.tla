------------------------------ MODULE C12Trace ------------------------------
(* C12 - trace validation of a real collecting process under many concurrent clients, under   *)
(* the race detector.  The abstract protocol is CollectorConc.tla (per-connection reader,     *)
(* unbuffered hand-off, Stop waits for the wait group); here each client c numbers its        *)
(* messages 1, 2, ... (observation domain = c, sequence number = index) and the trace carries *)
(*   Write{c,i}      logged BEFORE client c writes message i (whole)                           *)
(*   WriteHalf{c,i}  logged before c writes half of message i and closes abruptly              *)
(*   ClientClose{c}  clean close                                                              *)
(*   Deliver{c,i}    logged by the consumer after it received the message                     *)
(*   StopBegin / StopEnd{ms}, ConnZero{ok}, Final, AfterStop{leaked, relisten}                *)
(*   StopLeak{leaked}  goroutines of the collector still alive right after Stop returned      *)
(*                     (taken while the consumer is paused, so nothing can drain them)        *)
(* plus monitor events (Race, Crash, Hang) for which there is no action.                      *)
EXTENDS Integers, Sequences, FiniteSets, TraceBase

VARIABLES n, reliable, attempted, half, last, ndeliv, cclosed, stopEnded, lateFrom, l
vars == << n, reliable, attempted, half, last, ndeliv, cclosed, stopEnded, lateFrom, l >>
ev == Log[l]
IsEvent(e) == l <= Len(Log) /\ Log[l].e = e /\ l' = l + 1
Cl == 1..n

Init == n = 0 /\ reliable = TRUE /\ attempted = << >> /\ half = << >> /\ last = << >> /\ ndeliv = << >>
        /\ cclosed = << >> /\ stopEnded = FALSE /\ lateFrom = << >> /\ l = 1
TReset == /\ IsEvent("Reset")
          /\ n' = ev.n /\ reliable' = ev.reliable
          /\ attempted' = [c \in 1..ev.n |-> 0] /\ half' = [c \in 1..ev.n |-> 0] /\ last' = [c \in 1..ev.n |-> 0]
          /\ ndeliv' = [c \in 1..ev.n |-> 0] /\ cclosed' = [c \in 1..ev.n |-> FALSE]
          /\ stopEnded' = FALSE /\ lateFrom' = [c \in 1..ev.n |-> 0]

\* lateFrom[c] = index of the first message of c whose write began after Stop had returned (0: none)
TWrite == /\ IsEvent("Write") /\ ev.c \in Cl /\ ev.i = attempted[ev.c] + 1
          /\ attempted' = [attempted EXCEPT ![ev.c] = ev.i]
          /\ lateFrom' = IF stopEnded /\ lateFrom[ev.c] = 0 THEN [lateFrom EXCEPT ![ev.c] = ev.i] ELSE lateFrom
          /\ UNCHANGED << n, reliable, half, last, ndeliv, cclosed, stopEnded >>
TWriteHalf == /\ IsEvent("WriteHalf") /\ ev.c \in Cl /\ ev.i = attempted[ev.c] + 1
              /\ half' = [half EXCEPT ![ev.c] = ev.i] /\ cclosed' = [cclosed EXCEPT ![ev.c] = TRUE]
              /\ UNCHANGED << n, reliable, attempted, last, ndeliv, stopEnded, lateFrom >>
TClientClose == /\ IsEvent("ClientClose") /\ cclosed' = [cclosed EXCEPT ![ev.c] = TRUE]
                /\ UNCHANGED << n, reliable, attempted, half, last, ndeliv, stopEnded, lateFrom >>

\* exactly once and in order over TCP/TLS, at most once and in order over UDP;
\* never a message that was only half written; never one written after Stop returned
TDeliver ==
  /\ IsEvent("Deliver") /\ ev.c \in Cl
  /\ ev.i <= attempted[ev.c]
  /\ IF reliable THEN ev.i = last[ev.c] + 1 ELSE ev.i > last[ev.c]
  /\ lateFrom[ev.c] = 0 \/ ev.i < lateFrom[ev.c]
  /\ ~ev.late                      \* the consumer's receive did not even BEGIN after Stop had returned
  /\ last' = [last EXCEPT ![ev.c] = ev.i] /\ ndeliv' = [ndeliv EXCEPT ![ev.c] = @ + 1]
  /\ UNCHANGED << n, reliable, attempted, half, cclosed, stopEnded, lateFrom >>

TStopBegin == IsEvent("StopBegin") /\ UNCHANGED << n, reliable, attempted, half, last, ndeliv, cclosed, stopEnded, lateFrom >>
\* Stop returns promptly (generous bound) while the consumer keeps draining
TStopEnd == /\ IsEvent("StopEnd") /\ ev.ms <= 5000 /\ stopEnded' = TRUE
            /\ UNCHANGED << n, reliable, attempted, half, last, ndeliv, cclosed, lateFrom >>
\* the connection count returned to zero after the clients disconnected
TConnZero == IsEvent("ConnZero") /\ ev.ok /\ UNCHANGED << n, reliable, attempted, half, last, ndeliv, cclosed, stopEnded, lateFrom >>
\* no Stop in this run: every message of every cleanly closed reliable connection was delivered
TFinal == /\ IsEvent("Final")
          /\ reliable => \A c \in Cl : cclosed[c] => last[c] = attempted[c] /\ ndeliv[c] = attempted[c]
          /\ UNCHANGED << n, reliable, attempted, half, last, ndeliv, cclosed, stopEnded, lateFrom >>
\* after Stop: no goroutine of the collector is left and the port can be bound again
TAfterStop == /\ IsEvent("AfterStop") /\ stopEnded /\ ev.leaked = 0 /\ ev.relisten
              /\ UNCHANGED << n, reliable, attempted, half, last, ndeliv, cclosed, stopEnded, lateFrom >>

TStopLeak == /\ IsEvent("StopLeak") /\ stopEnded /\ ev.leaked = 0
             /\ UNCHANGED << n, reliable, attempted, half, last, ndeliv, cclosed, stopEnded, lateFrom >>
Next == TStopLeak \/ TReset \/ TWrite \/ TWriteHalf \/ TClientClose \/ TDeliver \/ TStopBegin \/ TStopEnd \/ TConnZero \/ TFinal \/ TAfterStop
Spec == Init /\ [][Next]_vars
=============================================================================
