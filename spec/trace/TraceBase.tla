----------------------------- MODULE TraceBase -----------------------------
(***************************************************************************)
(* Common machinery of every trace specification.                          *)
(* The trace is an NDJSON file named by the environment variable TRACE;    *)
(* each line is one event {"tr":<trace id>,"e":"<Action>",...}.            *)
(* Many traces are concatenated; each starts with a "Reset" event.         *)
(* Acceptance: every line was consumed (POSTCONDITION TraceAccepted).      *)
(* The trace specs here are fully logged (linear), so the diameter of the  *)
(* state graph is 1 + the number of consumed lines.                        *)
(***************************************************************************)
EXTENDS Integers, Sequences, TLC, TLCExt, Json, IOUtils

Log == ndJsonDeserialize(IOEnv.TRACE)

Has(r, k) == k \in DOMAIN r

TraceAccepted ==
  LET d == TLCGet("stats").diameter IN
    IF d - 1 = Len(Log)
      THEN PrintT(<<"TRACE_ACCEPTED", Len(Log)>>)
      ELSE PrintT(<<"TRACE_REJECTED_AT", d>>) /\ FALSE
=============================================================================
