------------------------------ MODULE C15Trace ------------------------------
(* C15 - information-element value codec.  One "Codec" event per (element, value):        *)
(* the bytes a real data record [element, sentinel 0xA5] produced, the lengths the        *)
(* library reported, and what the real collector decoded from those bytes.                *)
EXTENDS Wire, TraceBase

VARIABLES l, n      \* l: cursor;  n: number of Codec events accepted in this trace

SentinelByte == 165

CodecOK(ev) ==
  LET f   == ev.f
      v   == ev.v
      enc == EncValue(f, v)
  IN /\ ValueOK(f, v)
     /\ ev.buf = enc \o << SentinelByte >>              \* bytes written
     /\ ev.reported = Len(enc)                          \* element's reported length
     /\ ev.reported = EncLen(f, v)                      \* 1-byte prefix < 255, 3-byte from 255
     /\ ev.reclen = Len(ev.buf)                         \* record's reported length
     /\ ev.setlen = SetHdrLen + ev.reclen               \* set bookkeeping
     /\ ev.kind = "Data"                                \* decoder accepted the bytes
     /\ ev.nrec = 1
     /\ ev.dec = v                                      \* same value back
     /\ ev.sent = << SentinelByte >>                    \* decoder consumed exactly the element
     /\ ExactDecode(ev.buf, << f, [id |-> 4, ent |-> 0, len |-> 1, type |-> "unsigned8"] >>,
                    << << v, << SentinelByte >> >> >>)   \* independent parser agrees

Init == l = 1 /\ n = 0

IsEvent(e) == l <= Len(Log) /\ Log[l].e = e /\ l' = l + 1

TReset == IsEvent("Reset") /\ n' = 0
TCodec == IsEvent("Codec") /\ CodecOK(Log[l]) /\ n' = n + 1

Next == TReset \/ TCodec
Spec == Init /\ [][Next]_<<l, n>>
=============================================================================
