SPECIFICATION Spec
CONSTANT ActiveT = 2
CONSTANT InactiveT = 3
CONSTANT MaxRetries = 1
CONSTANT MinU = 0
POSTCONDITION TraceAccepted
INVARIANT Agreement
INVARIANT ReadyComplete
INVARIANT RetriesBounded
INVARIANT ArithmeticOK
CHECK_DEADLOCK FALSE
