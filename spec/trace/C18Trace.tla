------------------------------ MODULE C18Trace ------------------------------
(* C18 - one real handshake (and message) per cell of the configuration matrix; the observed   *)
(* outcome must agree with the policy of Transport.tla.  Cells with srv >= 0 are attempts of   *)
(* successive exporting processes against one long-lived endpoint (Attempt of Transport.tla).   *)
EXTENDS Transport, TraceBase
VARIABLES l, ncells
ev == Log[l]
IsEvent(e) == l <= Len(Log) /\ Log[l].e = e /\ l' = l + 1
Init == l = 1 /\ ncells = 0 /\ sess = << >>
TReset == IsEvent("Reset") /\ ncells' = 0 /\ sess' = << >>
TCell == /\ IsEvent("Cell") /\ CellOK(ev.cell, ev.obs) /\ ncells' = ncells + 1
         /\ IF ev.srv >= 0 THEN Attempt(ev.srv, ev.cell, ev.obs.established) ELSE UNCHANGED sess
Next == TReset \/ TCell
Spec == Init /\ [][Next]_<<l, ncells, sess>>
=============================================================================
