SPECIFICATION Spec
CONSTANT Keys = {"k1", "k2", "k3", "k4", "k5", "k6", "k7", "k8", "k9", "k10", "k11", "k12"}
CONSTANT Vers = {"v1", "v2"}
CONSTANT TTL = 2
POSTCONDITION TraceAccepted
INVARIANT NoEarlyDrop
INVARIANT ExpiryPending
INVARIANT NoOutlive
INVARIANT TimerBelongs
CHECK_DEADLOCK FALSE
