------------------------------ MODULE C16Trace ------------------------------
(* C16 - set and record builders.  A trace is the life of ONE real set object (reused across *)
(* ResetSet calls); after every API call the driver logs the observations.                   *)
EXTENDS SetBuilder, TraceBase

VARIABLE l
vars == << sbvars, l >>

Init == SBInit /\ l = 1
IsEvent(e) == l <= Len(Log) /\ Log[l].e = e /\ l' = l + 1
ev == Log[l]

Obs == /\ ev.setlen = length'
       /\ ev.hdr = HeaderBytes'
       /\ ev.nrec = Len(recs')

TReset == IsEvent("Reset") /\ Reset

TPrepare ==
  /\ IsEvent("Prepare")
  /\ IF ev.type = "undefined" THEN ev.err /\ PrepareUndefined
     ELSE ~ev.err /\ Prepare(ev.type, ev.id)
  /\ Obs

TAdd ==
  /\ IsEvent("Add")
  /\ IF stype = "undef" THEN ev.err /\ AddRecordUnprepared /\ ev.newlen = -1 /\ ev.newbuf = << >>    \* nothing was added
     ELSE IF ev.valued THEN ev.err /\ AddRecordRefused /\ ev.newlen = -1 /\ ev.newbuf = << >>
     ELSE /\ ~ev.err
          /\ AddRecord(ev.path, ev.id, ev.fields, ev.vals)
          /\ ev.newbuf = RecBytes(recs'[Len(recs')])       \* record buffer is exactly ...
          /\ ev.newlen = Len(ev.newbuf)                    \* ... its reported length
          /\ ev.newlen = RecLen(recs'[Len(recs')])
  /\ Obs

TUpdateLen == IsEvent("UpdateLen") /\ UpdateLen /\ Obs
TResetSet  == IsEvent("ResetSet") /\ Reset /\ Obs

TSerialize ==
  /\ IsEvent("Serialize")
  /\ UNCHANGED sbvars
  /\ IF SerializeFails THEN ev.err
     ELSE /\ ~ev.err
          /\ ev.msg = Serialized(ev.time, ev.seq, ev.dom)
          /\ Len(ev.msg) = MsgHdrLen + length             \* bytes serialized = reported length (+ header)

Next == TReset \/ TPrepare \/ TAdd \/ TUpdateLen \/ TResetSet \/ TSerialize
Spec == Init /\ [][Next]_vars
=============================================================================
