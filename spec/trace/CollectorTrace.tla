--------------------------- MODULE CollectorTrace ---------------------------
(* C03 / C04 / C17 - trace validation of the collector's decode path.  A trace is one real     *)
(* CollectingProcess in one decoding mode; each "Recv" event carries the bytes presented to    *)
(* decodePacket (verif hook) and what came out: error, template message, data message - or a   *)
(* monitor event (Panic, Hang) for which there is no action.                                   *)
EXTENDS Wire, TraceBase

VARIABLES store, nmsg, mode, l
vars == << store, nmsg, mode, l >>

RegList == JsonDeserialize(IOEnv.REGISTRY)
RegKeys == { << RegList[i].entb, RegList[i].id >> : i \in DOMAIN RegList }
TraceRegFn == [x \in RegKeys |-> RegList[CHOOSE i \in DOMAIN RegList : << RegList[i].entb, RegList[i].id >> = x]]

C == INSTANCE Collector WITH RegFn <- TraceRegFn

ev == Log[l]
IsEvent(e) == l <= Len(Log) /\ Log[l].e = e /\ l' = l + 1

FieldEq(a, b) == /\ a.id = b.id /\ a.entb = b.entb /\ a.len = b.len /\ a.type = b.type /\ a.name = b.name
FieldsEq(as, bs) == Len(as) = Len(bs) /\ \A i \in 1..Len(as) : FieldEq(as[i], bs[i])

Init == C!CInit /\ mode = "Strict" /\ l = 1

TReset == IsEvent("Reset") /\ store' = C!EmptyStore /\ nmsg' = 0 /\ mode' = ev.mode

Matches(o) ==
  /\ ev.kind = o.kind
  /\ o.kind = "Tmpl" => ev.tid = o.tid /\ FieldsEq(ev.fields, o.fields)
  /\ o.kind = "Data" => /\ ev.tid = o.tid
                        /\ ev.recs = o.recs
                        /\ \A i \in 1..Len(ev.rfields) : FieldsEq(ev.rfields[i], o.rfields)
                        /\ ev.dom = ParseHeader(ev.bytes).dom

\* the store as the real collector reports it (when the driver logged it)
StoreMatches ==
  Has(ev, "store") =>
    /\ { << s.dom, s.tid >> : s \in { ev.store[i] : i \in DOMAIN ev.store } } = DOMAIN store'
    /\ \A i \in DOMAIN ev.store : FieldsEq(ev.store[i].fields, store'[<< ev.store[i].dom, ev.store[i].tid >>])

TRecv ==
  /\ IsEvent("Recv")
  /\ LET o == C!Outcome(ev.bytes) IN
       \/ Matches(o) /\ C!Recv(ev.bytes, o)
       \/ o.alt /\ ev.kind = "Err" /\ UNCHANGED << store, nmsg, mode >>     \* padding: rejecting is allowed too
  /\ ev.nmsg = nmsg'
  /\ StoreMatches

Next == TReset \/ TRecv
Spec == Init /\ [][Next]_vars
=============================================================================
