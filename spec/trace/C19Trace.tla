------------------------------ MODULE C19Trace ------------------------------
(* C19 - trace validation of the Kafka producer: "Publish" (logged before the message is handed  *)
(* to PublishIPFIXMessages' channel), "Out" (what reached the Kafka producer's input: topic,     *)
(* payload, the payload's fields read by the harness's own protobuf wire reader, and what the    *)
(* consumer-side decoder made of it), "End".                                                     *)
EXTENDS Kafka, Wire, TraceBase
VARIABLES topic, l
vars == << kvars, topic, l >>
ev == Log[l]
IsEvent(e) == l <= Len(Log) /\ Log[l].e = e /\ l' = l + 1
Init == KInit /\ topic = "" /\ l = 1
TReset == IsEvent("Reset") /\ pending' = << >> /\ npub' = 0 /\ nout' = 0 /\ topic' = ev.topic
TPublish == IsEvent("Publish") /\ Publish(ev.m) /\ UNCHANGED topic
TOut == /\ IsEvent("Out")
        /\ ev.topic = topic
        /\ Len(ev.value) >= 4 /\ SubSeq(ev.value, 1, 4) = BE4(Len(ev.value) - 4)      \* 4-byte big-endian length prefix
        /\ LET pb == ParsePB(SubSeq(ev.value, 5, Len(ev.value))) IN                   \* exactly that many bytes of well-formed protobuf
             /\ pb.ok
             /\ Out([nums |-> pb.nums, strs |-> pb.strs])                              \* which decode to the record's values and the header's
        /\ ev.consok /\ FieldsMatch(ev.cons, Head(pending))                           \* the consumer-side decoder recovers the same
        /\ UNCHANGED topic
TEnd == IsEvent("End") /\ pending = << >> /\ UNCHANGED << kvars, topic >>
Next == TReset \/ TPublish \/ TOut \/ TEnd
Spec == Init /\ [][Next]_vars
=============================================================================
