SPECIFICATION Spec
POSTCONDITION TraceAccepted
INVARIANT LengthBookkeeping
INVARIANT SerializedLength
CHECK_DEADLOCK FALSE
