-------------------------------- MODULE Store --------------------------------
(***************************************************************************)
(* The standalone collector's in-memory store (cmd/collector): a bounded   *)
(* window of rendered messages, the /records query and the /reset request. *)
(***************************************************************************)
EXTENDS Integers, Sequences

CONSTANT Cap
VARIABLES win, arrivals      \* win: stored arrival ids, oldest first; arrivals: history of all arrival ids
svars == << win, arrivals >>

SInit == win = << >> /\ arrivals = << >>

Arrive(id) == /\ win' = IF Len(win) >= Cap THEN Append(Tail(win), id) ELSE Append(win, id)
              /\ arrivals' = Append(arrivals, id)

LastN(s, k) == SubSeq(s, Len(s) - k + 1, Len(s))
Min2(a, b) == IF a < b THEN a ELSE b

\* GET /records?count=&format=   count: [kind |-> "absent" | "valid" | "invalid", n]; format: "" | "json" | "text" | other
QueryStatus(method, count, format) ==
  IF method # "GET" THEN 405
  ELSE IF count.kind = "invalid" THEN 400
  ELSE IF format \notin {"", "json", "text"} THEN 400
  ELSE 200
QueryResult(count) == IF count.kind = "absent" THEN win ELSE LastN(win, Min2(count.n, Len(win)))
Query == UNCHANGED svars

\* POST /reset
ResetStatus(method) == IF method = "POST" THEN 200 ELSE 405
ResetReq(method) == /\ win' = IF method = "POST" THEN << >> ELSE win
                    /\ UNCHANGED arrivals

Bounded == Len(win) <= Cap
\* the store is a suffix of the arrivals, in arrival order
IsSuffix(s, t) == Len(s) <= Len(t) /\ s = LastN(t, Len(s))
MostRecentInOrder == IsSuffix(win, arrivals)
=============================================================================
