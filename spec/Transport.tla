------------------------------ MODULE Transport ------------------------------
(***************************************************************************)
(* Admission policy of the encrypted transports (C18).  A "cell" is one    *)
(* configuration of endpoint, certificates, names and protocol versions;   *)
(* the policy operators say which sessions may be established and which    *)
(* messages may be delivered.  The handshake itself is the TLS / DTLS      *)
(* library's; what go-ipfix owns is the configuration it passes to it      *)
(* (root CAs, ServerName, MinVersion, ClientAuth, no plaintext fallback),  *)
(* and that is what the policy pins down.                                  *)
(*                                                                         *)
(* cell = [ side     : "exporter" | "collector"   (which real endpoint)    *)
(*          proto    : "tls" | "dtls"                                      *)
(*          srvCert  : "trusted" | "otherCA" | "selfSigned" | "wrongSAN"   *)
(*                     | "noSAN"   (chain and names, as the exporter's     *)
(*                     configured CA and ServerName see the certificate)   *)
(*          nb, na   : validity period of the server certificate, seconds  *)
(*                     relative to the handshake: valid iff nb <= 0 <= na  *)
(*          srvName  : "match" | "unset" | "mismatch"  (exporter's ServerName) *)
(*          cliCert  : "none" | "trusted" | "otherCA" | "expired"          *)
(*          cliCA    : BOOLEAN  (collector configured with a client CA)    *)
(*          peerMax  : 11 | 12 | 13  (highest version the harness peer offers) *)
(*          addr     : "ip" | "host" | "ip2" (how the exporter is told to  *)
(*                     reach the collector: 127.0.0.1, localhost, or a     *)
(*                     second collector at 127.0.0.2)                      *)
(*          srvChain : "A" | "Bbundle" (collector side: its certificate is *)
(*                     issued by the client CA's own CA, or by another CA  *)
(*                     whose certificate is shipped in the ServerCert PEM) *)
(*          plain    : BOOLEAN  (the harness peer speaks plaintext) ]      *)
(***************************************************************************)
EXTENDS Integers, Sequences

SrvCerts == {"trusted", "otherCA", "selfSigned", "wrongSAN", "noSAN", "hostSAN"}
SrvNames == {"match", "unset", "mismatch", "ip"}
\* cell.chain (optional): further certificates the server appends to its leaf ("plusTrusted": a genuine, trusted
\* collector certificate).  They never change the verdict: the LEAF is what must chain, be valid and carry the name.
CliCerts == {"none", "trusted", "otherCA", "expired"}

Chains(c)     == c \in {"trusted", "wrongSAN", "noSAN", "hostSAN"}
\* the validity period is judged at the instant of the handshake, with no tolerance either way
InValidity(cell) == cell.nb <= 0 /\ cell.na >= 0
\* subject alternative names per certificate kind; the name that is verified is the configured ServerName or,
\* when none is configured, the host the exporter was told to contact - as given, NOT what it resolves to
\* (cell.addr: "ip" = 127.0.0.1, "host" = localhost)
SANs(cert) == CASE cert \in {"trusted", "otherCA", "selfSigned"} -> {"collector.verif", "127.0.0.1"}
                [] cert = "hostSAN"  -> {"localhost"}
                [] cert = "wrongSAN" -> {"wrong.verif", "10.9.9.9"}
                [] OTHER             -> {}
Contacted(cell) == IF "addr" \notin DOMAIN cell THEN "127.0.0.1"
                   ELSE CASE cell.addr = "host" -> "localhost"
                          [] cell.addr = "ip2"  -> "127.0.0.2"      \* a second collector, on another address
                          [] OTHER              -> "127.0.0.1"
WantedName(cell) == CASE cell.srvName = "match"    -> "collector.verif"
                      [] cell.srvName = "mismatch" -> "other.verif"
                      [] cell.srvName = "ip"       -> "127.0.0.1"       \* ServerName given as an IP literal
                      [] OTHER                     -> Contacted(cell)
NameOK(cell) == WantedName(cell) \in SANs(cell.srvCert)

ServerOK(cell) == Chains(cell.srvCert) /\ InValidity(cell) /\ NameOK(cell)
VersionOK(cell) == cell.peerMax >= 12
\* client authentication: a certificate issued by the configured client CA - nothing else is a trust anchor,
\* in particular not the CA certificates shipped in the collector's own ServerCert bundle (cell.srvChain)
ClientOK(cell) == ~cell.cliCA \/ cell.cliCert = "trusted"

\* Exporter side: is InitExportingProcess allowed / required to succeed ?
\*   "yes" | "no" | "either" (DTLS without a ServerName: the library checks chain and validity only; not asserted)
\* cfg: "ok" | "badCA" (CA data that is not PEM) | "badKey" (client certificate and key do not match):
\* security settings are present but cannot be turned into a configuration - never a plaintext session
CfgOK(cell) == ("cfg" \notin DOMAIN cell) \/ cell.cfg = "ok"
ExporterEstablishes(cell) ==
  IF cell.plain \/ ~CfgOK(cell) THEN "no"
  ELSE IF cell.proto = "tls" THEN (IF ServerOK(cell) /\ VersionOK(cell) THEN "yes" ELSE "no")
  ELSE IF ~(Chains(cell.srvCert) /\ InValidity(cell)) THEN "no"
  ELSE IF cell.srvName = "unset" THEN "either"
  ELSE IF NameOK(cell) THEN "yes" ELSE "no"

\* Collector side: may a message from this peer be delivered to the consumer ?
CollectorDelivers(cell) ==
  IF cell.plain THEN "no"
  ELSE IF cell.proto = "tls" THEN (IF ClientOK(cell) /\ VersionOK(cell) THEN "yes" ELSE "no")
  ELSE "yes"

Agrees(expect, observed) == expect = "either" \/ (expect = "yes") = observed

\* one observed cell: [established, delivered, version] against the policy
CellOK(cell, obs) ==
  IF cell.side = "exporter"
    THEN /\ Agrees(ExporterEstablishes(cell), obs.established)
         /\ obs.established /\ cell.proto = "tls" => obs.version >= 12          \* TLS 1.2 or later
         /\ ~obs.established => ~obs.sent                                        \* no fallback: nothing was sent in the clear
    ELSE /\ Agrees(CollectorDelivers(cell), obs.delivered)

---------------------------------------------------------------------------
(* Histories.  Several exporting processes of one application may talk to  *)
(* the same long-lived collector endpoint, one after the other, each with  *)
(* its own trust configuration (CA rotation, per-tenant CAs).  Every       *)
(* attempt is admitted on its own configuration alone: go-ipfix keeps no   *)
(* TLS session state across exporting processes (no ClientSessionCache),   *)
(* so what an earlier process established never vouches for a later one.   *)
(* sess[s] is the sequence of attempts made against endpoint s.            *)
VARIABLE sess
SessInit == sess = << >>
Attempt(s, cell, est) ==
  /\ Agrees(ExporterEstablishes(cell), est)                   \* whatever sess[s] holds
  /\ sess' = [x \in DOMAIN sess \cup {s} |->
               IF x = s THEN (IF s \in DOMAIN sess THEN sess[s] ELSE << >>) \o << [cell |-> cell, est |-> est] >>
               ELSE sess[x]]
\* no established attempt anywhere in a history lacks its own verification
HistoryFree == \A s \in DOMAIN sess : \A i \in DOMAIN sess[s] :
                 sess[s][i].est => ExporterEstablishes(sess[s][i].cell) # "no"
\* histories in which an earlier attempt was admitted and a later one had to be refused (coverage)
RefusedAfterAdmitted(s) == \E i, j \in DOMAIN sess[s] : i < j /\ sess[s][i].est /\ ~sess[s][j].est
=============================================================================
