------------------------------ MODULE Transport ------------------------------
(***************************************************************************)
(* Admission policy of the encrypted transports (C18).  A "cell" is one    *)
(* configuration of endpoint, certificates, names and protocol versions;   *)
(* the policy operators say which sessions may be established and which    *)
(* messages may be delivered.  The handshake itself is the TLS / DTLS      *)
(* library's; what go-ipfix owns is the configuration it passes to it      *)
(* (root CAs, ServerName, MinVersion, ClientAuth, no plaintext fallback),  *)
(* and that is what the policy pins down.                                  *)
(*                                                                         *)
(* cell = [ side     : "exporter" | "collector"   (which real endpoint)    *)
(*          proto    : "tls" | "dtls"                                      *)
(*          srvCert  : "trusted" | "otherCA" | "selfSigned" | "expired"    *)
(*                     | "notYetValid" | "wrongSAN" | "noSAN"              *)
(*          srvName  : "match" | "unset" | "mismatch"  (exporter's ServerName) *)
(*          cliCert  : "none" | "trusted" | "otherCA" | "expired"          *)
(*          cliCA    : BOOLEAN  (collector configured with a client CA)    *)
(*          peerMax  : 11 | 12 | 13  (highest version the harness peer offers) *)
(*          plain    : BOOLEAN  (the harness peer speaks plaintext) ]      *)
(***************************************************************************)
EXTENDS Integers

SrvCerts == {"trusted", "otherCA", "selfSigned", "expired", "notYetValid", "wrongSAN", "noSAN"}
SrvNames == {"match", "unset", "mismatch"}
CliCerts == {"none", "trusted", "otherCA", "expired"}

Chains(c)     == c \in {"trusted", "expired", "notYetValid", "wrongSAN", "noSAN"}
InValidity(c) == c \notin {"expired", "notYetValid"}
\* the trusted certificate carries the DNS name the exporter is configured with AND the IP it dials
NameMatches(cert, name) == cert = "trusted" /\ name \in {"match", "unset"}

ServerOK(cell) == Chains(cell.srvCert) /\ InValidity(cell.srvCert) /\ NameMatches(cell.srvCert, cell.srvName)
VersionOK(cell) == cell.peerMax >= 12
ClientOK(cell) == ~cell.cliCA \/ cell.cliCert = "trusted"

\* Exporter side: is InitExportingProcess allowed / required to succeed ?
\*   "yes" | "no" | "either" (DTLS without a ServerName: the library checks chain and validity only; not asserted)
\* cfg: "ok" | "badCA" (CA data that is not PEM) | "badKey" (client certificate and key do not match):
\* security settings are present but cannot be turned into a configuration - never a plaintext session
CfgOK(cell) == ("cfg" \notin DOMAIN cell) \/ cell.cfg = "ok"
ExporterEstablishes(cell) ==
  IF cell.plain \/ ~CfgOK(cell) THEN "no"
  ELSE IF cell.proto = "tls" THEN (IF ServerOK(cell) /\ VersionOK(cell) THEN "yes" ELSE "no")
  ELSE IF ~(Chains(cell.srvCert) /\ InValidity(cell.srvCert)) THEN "no"
  ELSE IF cell.srvName = "unset" THEN "either"
  ELSE IF NameMatches(cell.srvCert, cell.srvName) THEN "yes" ELSE "no"

\* Collector side: may a message from this peer be delivered to the consumer ?
CollectorDelivers(cell) ==
  IF cell.plain THEN "no"
  ELSE IF cell.proto = "tls" THEN (IF ClientOK(cell) /\ VersionOK(cell) THEN "yes" ELSE "no")
  ELSE "yes"

Agrees(expect, observed) == expect = "either" \/ (expect = "yes") = observed

\* one observed cell: [established, delivered, version] against the policy
CellOK(cell, obs) ==
  IF cell.side = "exporter"
    THEN /\ Agrees(ExporterEstablishes(cell), obs.established)
         /\ obs.established /\ cell.proto = "tls" => obs.version >= 12          \* TLS 1.2 or later
         /\ ~obs.established => ~obs.sent                                        \* no fallback: nothing was sent in the clear
    ELSE /\ Agrees(CollectorDelivers(cell), obs.delivered)
=============================================================================
