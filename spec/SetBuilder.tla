----------------------------- MODULE SetBuilder -----------------------------
(***************************************************************************)
(* entities.Set / entities.Record builders (encoding side).                *)
(* State = what the builder has been told; observations (reported length,  *)
(* header bytes, record bytes, serialized message) are functions of it.    *)
(* One action per API call.  The add path (copying / with spare capacity / *)
(* slice-adopting) is an argument that the transition ignores: that IS the *)
(* statement that the three paths are equivalent.                          *)
(***************************************************************************)
EXTENDS Wire

VARIABLES
  stype,    \* "undef" | "template" | "data"   (what PrepareSet last said; "undef" after Reset / new)
  hdrId,    \* set id in the header buffer
  hdrLen,   \* length field in the header buffer (written only by UpdateLen)
  recs,     \* sequence of records: [kind, tid, fields, vals]
  length    \* the running length the builder keeps (+= on every add)

sbvars == << stype, hdrId, hdrLen, recs, length >>

AllRecBytes == Flat([i \in 1..Len(recs) |-> RecBytes(recs[i])])
SumRecLens == FoldLeft(LAMBDA acc, r : acc + RecLen(r), 0, recs)

HeaderBytes == BE2(hdrId) \o BE2(hdrLen)

SBInit == /\ stype = "undef" /\ hdrId = 0 /\ hdrLen = 0 /\ recs = << >> /\ length = SetHdrLen

Prepare(t, id) ==
  /\ t \in {"template", "data"}
  /\ stype' = t
  /\ hdrId' = IF t = "template" THEN TemplateSetId ELSE id
  /\ UNCHANGED << hdrLen, recs, length >>

PrepareUndefined == UNCHANGED sbvars         \* PrepareSet(Undefined): error, no effect

\* path \in {"copy", "extra", "adopt"} is deliberately unused
AddRecord(path, id, fields, vals) ==
  /\ stype \in {"template", "data"}
  /\ LET r == [kind |-> stype, tid |-> id, fields |-> fields,
               vals |-> IF stype = "data" THEN vals ELSE << >>] IN
       /\ recs' = Append(recs, r)
       /\ length' = length + RecLen(r)
  /\ UNCHANGED << stype, hdrId, hdrLen >>

\* a template record whose elements carry values is refused by the copying paths: error, nothing changes
AddRecordRefused == stype = "template" /\ UNCHANGED sbvars

AddRecordUnprepared == stype = "undef" /\ UNCHANGED sbvars    \* error "set type is not supported"

UpdateLen == hdrLen' = length % 65536 /\ UNCHANGED << stype, hdrId, recs, length >>

Reset == /\ stype' = "undef" /\ hdrId' = 0 /\ hdrLen' = 0 /\ recs' = << >> /\ length' = SetHdrLen

\* CreateIPFIXMsg: error when too long, else header + set header + records
SerializeFails == MsgHdrLen + length > MaxMsgLen
Serialized(time, seq, dom) ==
  BE2(10) \o BE2(MsgHdrLen + length) \o BE4(time) \o Limbs4(seq) \o Limbs4(dom) \o HeaderBytes \o AllRecBytes

(* The property *)
LengthBookkeeping == length = SetHdrLen + SumRecLens
SerializedLength  == Len(HeaderBytes \o AllRecBytes) = length
RecordLengths     == \A i \in 1..Len(recs) : Len(RecBytes(recs[i])) = RecLen(recs[i])
ResetIsNew        == [][ (stype' = "undef" /\ recs' = << >> /\ recs # << >>) =>
                           (hdrId' = 0 /\ hdrLen' = 0 /\ length' = SetHdrLen) ]_sbvars
=============================================================================
