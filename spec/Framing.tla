------------------------------- MODULE Framing -------------------------------
(***************************************************************************)
(* TCP framing in the collector (pkg/collector/tcp.go handleTCPClient):    *)
(* per connection a byte stream arrives in arbitrary segments; the reader  *)
(* peeks 4 bytes, takes the message length from bytes 3-4, reads exactly   *)
(* that many bytes and decodes them; the first undecodable message closes  *)
(* the connection.  Decoding itself is Collector.tla (one shared template  *)
(* store for all connections of the process).                              *)
(***************************************************************************)
EXTENDS Wire

CONSTANTS RegFn, Conns

VARIABLES store, nmsg, mode,      \* Collector.tla
          written,   \* Conns -> bytes handed to the network so far (in order)
          pos,       \* Conns -> number of bytes the reader has consumed as whole messages
          cclosed,   \* Conns -> client closed its end
          ended      \* Conns -> "no" | "err" | "eof" : the handler returned

C == INSTANCE Collector
frvars == << store, nmsg, mode, written, pos, cclosed, ended >>

FrInit(m) == /\ store = C!EmptyStore /\ nmsg = 0 /\ mode = m
             /\ written = [c \in Conns |-> << >>] /\ pos = [c \in Conns |-> 0]
             /\ cclosed = [c \in Conns |-> FALSE] /\ ended = [c \in Conns |-> "no"]

NoFrame == [none |-> TRUE]
\* the next whole message in c's byte stream, if all of it has been written
NextFrame(c) ==
  LET b == written[c]
      p == pos[c] IN
  IF Len(b) - p < 4 THEN NoFrame
  ELSE LET n == U16(b, p + 3) IN
       IF Len(b) - p < n THEN NoFrame ELSE [bytes |-> SubSeq(b, p + 1, p + n)]

\* the harness hands the next chunk to the network (any segmentation)
Seg(c, chunk) == /\ written' = [written EXCEPT ![c] = @ \o chunk]
                 /\ UNCHANGED << store, nmsg, mode, pos, cclosed, ended >>

ClientClose(c) == /\ cclosed' = [cclosed EXCEPT ![c] = TRUE]
                  /\ UNCHANGED << store, nmsg, mode, written, pos, ended >>

\* the reader reassembled the next message and it decoded: delivered, in order, exactly once
Deliver(c, o) ==
  /\ ended[c] = "no"
  /\ NextFrame(c) # NoFrame
  /\ o = C!Outcome(NextFrame(c).bytes)
  /\ o.kind # "Err"
  /\ pos' = [pos EXCEPT ![c] = @ + Len(NextFrame(c).bytes)]
  /\ store' = o.store /\ nmsg' = nmsg + 1
  /\ UNCHANGED << mode, written, cclosed, ended >>

\* the handler returned: either the next message was undecodable (connection closed, nothing
\* further from this stream is delivered), or the client closed and no whole message is pending
EndErr(c) ==
  /\ ended[c] = "no" /\ NextFrame(c) # NoFrame
  /\ LET o == C!Outcome(NextFrame(c).bytes) IN
       /\ o.kind = "Err" \/ o.alt
       /\ store' = (IF o.kind = "Err" THEN o.store ELSE store)
  /\ ended' = [ended EXCEPT ![c] = "err"]
  /\ UNCHANGED << nmsg, mode, written, pos, cclosed >>
EndEof(c) ==
  /\ ended[c] = "no" /\ cclosed[c] /\ NextFrame(c) = NoFrame
  /\ ended' = [ended EXCEPT ![c] = "eof"]
  /\ UNCHANGED << store, nmsg, mode, written, pos, cclosed >>
=============================================================================
