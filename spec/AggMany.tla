------------------------------- MODULE AggMany -------------------------------
(***************************************************************************)
(* Many flows due at once (C06 at a scale the key-by-key model of          *)
(* Aggregation.tla cannot be run at): n single-stream flows are held, time *)
(* passes beyond every deadline, ONE scan calls back for each of them      *)
(* exactly once and removes them all; nothing is left held or queued.      *)
(* Abstraction of Aggregation.tla's Scan for the case ExpiredKeys = Held   *)
(* and every inactive deadline passed.                                     *)
(***************************************************************************)
EXTENDS Integers, FiniteSets
VARIABLES held, overdue        \* sets of flow numbers
mvars == << held, overdue >>
MInit == held = {} /\ overdue = FALSE
NewFlows(S) == ~overdue /\ S \cap held = {} /\ held' = held \cup S /\ UNCHANGED overdue
PassAll == overdue' = TRUE /\ UNCHANGED held                      \* the clock moves past every inactive deadline
\* one scan: calls = the flows it called back for (as a set, with the number of calls), left = flows still held afterwards
ScanAll(calls, ncalls, left, queued) ==
  /\ overdue
  /\ calls = held /\ ncalls = Cardinality(held)                    \* each exactly once
  /\ left = 0 /\ queued = 0
  /\ held' = {} /\ UNCHANGED overdue
=============================================================================
