------------------------------ MODULE FramingMC ------------------------------
(* Exhaustive model for C11: two connections, each with a fixed stream of three messages      *)
(* (template, data, data; optionally an undecodable one at any position), all segmentations    *)
(* (chunk sizes 1..MaxChunk), all interleavings of the two connections.                        *)
EXTENDS Framing, TLC
CONSTANTS MaxChunk, BadPos     \* BadPos: Conns -> 0 (none) | 1..3

FU8  == [id |-> 4,  entb |-> <<0, 0, 0, 0>>, len |-> 1, type |-> "unsigned8",  name |-> "protocolIdentifier"]
MCReg == [x \in { <<FU8.entb, FU8.id>> } |-> FU8]

Msg(d, sq, setId, body) == EncMessage(100, <<0, sq>>, <<0, d>>, EncSet(setId, body))
Good(c) == << Msg(c, 0, 2, EncTemplateRecord(256, <<FU8>>)), Msg(c, 1, 256, <<7>>), Msg(c, 2, 256, <<8, 9>>) >>
Bad(c) == Msg(c, 9, 999, <<1>>)                       \* data set without template
Msgs(c) == [i \in 1..3 |-> IF BadPos[c] = i THEN Bad(c) ELSE Good(c)[i]]
Stream(c) == Msgs(c)[1] \o Msgs(c)[2] \o Msgs(c)[3]

BP00 == 1 :> 0 @@ 2 :> 0
BP20 == 1 :> 2 @@ 2 :> 0
BP13 == 1 :> 1 @@ 2 :> 3

VARIABLE delivered      \* Conns -> sequence of delivered outcomes (kind, seq)
Init == FrInit("Strict") /\ delivered = [c \in Conns |-> << >>]

ASeg(c, n) == /\ ~cclosed[c] /\ Len(written[c]) + n <= Len(Stream(c))
              /\ Seg(c, SubSeq(Stream(c), Len(written[c]) + 1, Len(written[c]) + n))
              /\ UNCHANGED delivered
AClose(c) == ~cclosed[c] /\ Len(written[c]) = Len(Stream(c)) /\ ClientClose(c) /\ UNCHANGED delivered
ADeliver(c) == /\ NextFrame(c) # NoFrame
               /\ LET o == C!Outcome(NextFrame(c).bytes) IN
                    /\ Deliver(c, o)
                    /\ delivered' = [delivered EXCEPT ![c] = Append(@, ParseHeader(NextFrame(c).bytes).seq[2])]
AEnd(c) == (EndErr(c) \/ EndEof(c)) /\ UNCHANGED delivered
Next == \E c \in Conns : (\E n \in 1..MaxChunk : ASeg(c, n)) \/ AClose(c) \/ ADeliver(c) \/ AEnd(c)
Spec == Init /\ [][Next]_<<frvars, delivered>>

\* what must be delivered from c: the messages before the first undecodable one, in order
Expected(c) == IF BadPos[c] = 0 THEN <<0, 1, 2>> ELSE SubSeq(<<0, 1, 2>>, 1, BadPos[c] - 1)
OnlyStreamMessagesInOrder == \A c \in Conns : IsPrefix(delivered[c], Expected(c))
CompleteAtEnd == \A c \in Conns : ended[c] # "no" => delivered[c] = Expected(c)
NothingAfterEnd == [][\A c \in Conns : ended[c] # "no" => delivered'[c] = delivered[c]]_<<frvars, delivered>>
EndKind == \A c \in Conns : /\ ended[c] = "err" => BadPos[c] # 0
                            /\ ended[c] = "eof" => BadPos[c] = 0
=============================================================================
