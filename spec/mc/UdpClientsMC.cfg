SPECIFICATION UCFair
CONSTANT Addrs = {"a", "b"}
CONSTANT NDatagrams = 3
INVARIANT MapPointsAtLive
INVARIANT OnePerAddr
INVARIANT Accounted
PROPERTY NoHandoffDeadlock
PROPERTY StopWindsDown
CHECK_DEADLOCK FALSE
