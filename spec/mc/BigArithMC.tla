----------------------------- MODULE BigArithMC -----------------------------
(* The limb arithmetic against TLC's own integers on values that fit them. *)
EXTENDS BigArith, TLC
VARIABLE x
ToL(n) == << n % B, (n \div B) % B, 0, 0 >>
Val(a) == a[1] + a[2] * B                    \* for values below 2^31 (limbs 3, 4 zero)
Samples == {0, 1, 7, 255, 65535, 65536, 65537, 1000000, 123456789, 268435455}
Init == x \in Samples \X Samples \X {1, 2, 3, 7, 9, 1000, 32767}
Next == UNCHANGED x
SubOK == x[1] >= x[2] => (Val(SubL(ToL(x[1]), ToL(x[2]))) = x[1] - x[2] /\ GeL(ToL(x[1]), ToL(x[2])))
GeOK == GeL(ToL(x[1]), ToL(x[2])) = (x[1] >= x[2])
MulDivOK == x[1] <= 268435455 =>
              LET t == TputL(ToL(x[1]), x[3]) IN t[3] = 0 /\ t[4] = 0 /\ Val(t) = (8 * x[1]) \div x[3]
\* one value beyond 32 bits, worked by hand: (8 * (2^51 + 2)) \div 3 = 6004799503160666 = 0x0015 5555 5555 555A
Big == TputL(<< 2, 0, 0, 8 >>, 3) = << 21850, 21845, 21845, 21 >>
=============================================================================
