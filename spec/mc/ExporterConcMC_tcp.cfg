SPECIFICATION FairSpec
CONSTANT Tids = {256, 257}
CONSTANT NData = 3
CONSTANT NTicks = 2
CONSTANT Closers = {"c1", "c2"}
CONSTANT Proto = "tcp"
INVARIANT CloseOnce
INVARIANT ReturnedMeansStopped
INVARIANT AppInOrder
INVARIANT RefreshKnown
INVARIANT SeqMonotone
PROPERTY NoWriteAfterClose
PROPERTY CloseTerminates
CHECK_DEADLOCK FALSE
