INIT Init
NEXT Next
CONSTANT MaxFields = 2
CONSTANT MaxRecs = 1
INVARIANT RoundTrip
INVARIANT TemplateRoundTrip
INVARIANT HeaderRoundTrip
INVARIANT NoShortAccept
INVARIANT LimbsOK
CHECK_DEADLOCK FALSE
