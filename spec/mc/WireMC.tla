------------------------------- MODULE WireMC -------------------------------
(* Exhaustive small-scope check of Wire.tla against itself: the encoder operators and the    *)
(* independently written parser operators agree (Parse o Enc = id), length accounting holds,  *)
(* and the 255 boundary is handled the same way in EncValue, EncLen and ParseField.           *)
EXTENDS Wire, TLC

CONSTANT MaxFields, MaxRecs

Rep(b, n) == [i \in 1..n |-> b]

Reg == <<
  [id |-> 4,   ent |-> 0,     len |-> 1,     type |-> "unsigned8"],
  [id |-> 7,   ent |-> 29305, len |-> 2,     type |-> "unsigned16"],
  [id |-> 82,  ent |-> 0,     len |-> 65535, type |-> "string"],
  [id |-> 313, ent |-> 56506, len |-> 65535, type |-> "octetArray"],
  [id |-> 400, ent |-> 77777, len |-> 3,     type |-> "octetArray"],
  [id |-> 276, ent |-> 0,     len |-> 1,     type |-> "boolean"] >>

Vals(f) ==
  CASE f.type = "unsigned8"  -> { <<0>>, <<255>> }
    [] f.type = "unsigned16" -> { <<0, 1>>, <<255, 254>> }
    [] f.type = "string"     -> { Rep(65, n) : n \in {0, 1, 254, 255, 256} }
    [] f.type = "octetArray" /\ f.len = 65535 -> { << >>, <<255>>, Rep(255, 255), <<0, 255, 0>> }
    [] f.type = "octetArray" -> { <<0, 0, 0>>, <<255, 1, 2>> }
    [] f.type = "boolean"    -> { <<0>>, <<1>> }

FieldSeqs == UNION { [1..n -> 1..Len(Reg)] : n \in 1..MaxFields }
RecsFor(fs) ==
  LET one == { r \in [1..Len(fs) -> UNION { Vals(Reg[fs[i]]) : i \in 1..Len(fs) }] :
                 \A i \in 1..Len(fs) : r[i] \in Vals(Reg[fs[i]]) }
  IN UNION { [1..n -> one] : n \in 1..MaxRecs }

VARIABLE c
Init == \E fs \in FieldSeqs : \E rs \in RecsFor(fs) : c = [fs |-> fs, rs |-> rs]
Next == UNCHANGED c

Fields(x) == [i \in 1..Len(x.fs) |-> Reg[x.fs[i]]]

RoundTrip ==
  LET fs == Fields(c)
      rs == c.rs
      set == EncDataSet(300, fs, rs)
      body == SubSeq(set, 5, Len(set))
      g == ParseDataBody(body, fs)
  IN /\ \A i \in 1..Len(rs) : \A j \in 1..Len(fs) : ValueOK(fs[j], rs[i][j])
     /\ ExactDecode(body, fs, rs)
     /\ g.recs = rs /\ g.next = Len(body) + 1
     /\ U16(set, 1) = 300 /\ U16(set, 3) = Len(set)
     /\ \A i \in 1..Len(rs) : Len(EncDataRecord(fs, rs[i])) = DataRecordLen(fs, rs[i])
     /\ \A i \in 1..Len(rs) : DataRecordLen(fs, rs[i]) >= MinRecLen(fs)
     /\ \A i \in 1..Len(rs) : \A j \in 1..Len(fs) : Len(EncValue(fs[j], rs[i][j])) = EncLen(fs[j], rs[i][j])

TemplateRoundTrip ==
  LET fs == Fields(c)
      t == EncTemplateSet(257, fs)
      p == ParseTemplateBody(SubSeq(t, 5, Len(t)))
  IN /\ U16(t, 1) = 2 /\ U16(t, 3) = Len(t)
     /\ p.ok /\ p.tid = 257 /\ Len(p.specs) = Len(fs) /\ p.next = Len(t) - 4 + 1
     /\ \A i \in 1..Len(fs) : /\ p.specs[i].id = fs[i].id /\ p.specs[i].len = fs[i].len
                              /\ p.specs[i].entb = BE4(fs[i].ent)

HeaderRoundTrip ==
  LET fs == Fields(c)
      set == EncDataSet(300, fs, c.rs)
      m == EncMessage(1790000000, <<65535, 65534>>, <<1, 2>>, set)
      h == ParseHeader(m)
  IN /\ h.ok /\ h.version = 10 /\ h.length = Len(m) /\ h.timeb = BE4(1790000000)
     /\ h.seq = <<65535, 65534>> /\ h.dom = <<1, 2>> /\ h.setId = 300 /\ h.setLen = Len(m) - 16
     /\ h.body = SubSeq(set, 5, Len(set))

\* a body cut anywhere inside never decodes exactly to the same records
NoShortAccept ==
  LET fs == Fields(c)
      set == EncDataSet(300, fs, c.rs)
      body == SubSeq(set, 5, Len(set))
  IN \A k \in 0..(Len(body) - 1) : ~ExactDecode(SubSeq(body, 1, k), fs, c.rs)

LimbsOK == /\ AddLimbs(<<65535, 65535>>, 1) = <<0, 0>>
           /\ AddLimbs(<<65535, 65530>>, 10) = <<0, 4>>
           /\ AddLimbs(<<0, 65535>>, 65537) = <<2, 0>>
           /\ AddLimbs(<<1, 2>>, 0) = <<1, 2>>
=============================================================================
