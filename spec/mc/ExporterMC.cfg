SPECIFICATION Spec
CONSTANT MaxLen = 40
CONSTANT MaxOps = 4
INVARIANT SeqIsRecordCount
INVARIANT NeverInvalid
INVARIANT SeqOnWire
INVARIANT OneMessagePerSuccess
PROPERTY NothingAfterClose
CHECK_DEADLOCK FALSE
