---------------------------- MODULE SetBuilderMC ----------------------------
EXTENDS SetBuilder, TLC
CONSTANT MaxOps
VARIABLE k

Rep(b, n) == [i \in 1..n |-> b]
U8  == [id |-> 4,   ent |-> 0,     len |-> 1,     type |-> "unsigned8"]
U32 == [id |-> 10,  ent |-> 0,     len |-> 4,     type |-> "unsigned32"]
STR == [id |-> 82,  ent |-> 0,     len |-> 65535, type |-> "string"]
EST == [id |-> 101, ent |-> 56506, len |-> 65535, type |-> "string"]

DataRecs == { [fields |-> <<U8>>, vals |-> << <<7>> >>],
              [fields |-> <<U32, STR>>, vals |-> << <<1, 2, 3, 4>>, Rep(65, 254) >>],
              [fields |-> <<STR>>, vals |-> << Rep(66, 255) >>],
              [fields |-> <<EST, U8>>, vals |-> << << >>, <<0>> >>],
              [fields |-> << >>, vals |-> << >>] }
TmplRecs == { <<U8>>, <<U32, STR>>, <<EST, U8>>, << >> }

Init == SBInit /\ k = 0
Step(A) == k < MaxOps /\ k' = k + 1 /\ A
Next ==
  \/ Step(\E t \in {"template", "data"} : \E id \in {256, 257} : Prepare(t, id))
  \/ Step(PrepareUndefined)
  \/ Step(stype = "data" /\ \E r \in DataRecs : \E p \in {"copy", "extra", "adopt"} : AddRecord(p, hdrId, r.fields, r.vals))
  \/ Step(stype = "template" /\ \E f \in TmplRecs : \E p \in {"copy", "extra", "adopt"} : \E id \in {256, 257} : AddRecord(p, id, f, << >>))
  \/ Step(AddRecordUnprepared)
  \/ Step(AddRecordRefused)
  \/ Step(UpdateLen)
  \/ Step(Reset)
Spec == Init /\ [][Next]_<<sbvars, k>>

HdrLenNeverAhead == hdrLen <= length
SerializeOK == ~SerializeFails => LET m == Serialized(5, <<0, 1>>, <<0, 2>>) IN
                 /\ Len(m) = MsgHdrLen + length /\ U16(m, 3) = Len(m)
=============================================================================
