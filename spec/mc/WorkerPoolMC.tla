---- MODULE WorkerPoolMC ----
EXTENDS WorkerPool, TLC
====
