SPECIFICATION Spec
CONSTANT ActiveT = 2
CONSTANT InactiveT = 3
CONSTANT MaxRetries = 1
CONSTANT MinU = 0
CONSTANT MaxEnd = 3
CONSTANT MaxTot = 2
CONSTANT MaxDelta = 1
CONSTANT MaxRecs = 3
CONSTANT Stream = "single"
INVARIANT ArithmeticOK
INVARIANT OneFlowPerKey
INVARIANT Agreement
PROPERTY Independence
PROPERTY ResetOnlyDeltaAndTput
CHECK_DEADLOCK FALSE
