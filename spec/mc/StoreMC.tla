------------------------------- MODULE StoreMC -------------------------------
EXTENDS Store, TLC
CONSTANT MaxOps
VARIABLE k
Init == SInit /\ k = 0
Next == /\ k < MaxOps /\ k' = k + 1
        /\ \/ Arrive(Len(arrivals) + 1)
           \/ \E m \in {"POST", "GET"} : ResetReq(m)
           \/ Query
Spec == Init /\ [][Next]_<<svars, k>>
\* between resets the window holds exactly the last min(Cap, arrivals since reset) arrivals
QueryOK == \A n \in 0..(Cap + 2) : LET r == QueryResult([kind |-> "valid", n |-> n]) IN
              /\ Len(r) = Min2(n, Len(win)) /\ IsSuffix(r, win)
=============================================================================
