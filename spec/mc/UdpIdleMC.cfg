SPECIFICATION Spec
CONSTANT Srcs = {1, 2}
CONSTANT MaxSend = 5
INVARIANT TypeOK
INVARIANT GrayOnlyInGray
INVARIANT InOrderAtMostOnce
INVARIANT NoLossWhileActive
CHECK_DEADLOCK FALSE
