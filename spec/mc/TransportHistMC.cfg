SPECIFICATION Spec
CONSTANT MaxLen = 3
INVARIANT HistoryFree
INVARIANT OutcomeOwn
CHECK_DEADLOCK FALSE
