------------------------------- MODULE KafkaMC -------------------------------
EXTENDS Kafka, TLC
CONSTANT MaxMsgs
VARIABLES ins, outs
R(v) == [nums |-> [protocolIdentifier |-> v], strs |-> [sourcePodName |-> <<112>>]]
Msgs == { [kind |-> "template", time |-> 1, seq |-> 0, dom |-> 1, addr |-> <<97>>, recs |-> << >>] }
   \cup { [kind |-> "data", time |-> 2, seq |-> s, dom |-> 1, addr |-> <<97>>, recs |-> rs] :
            s \in {1, 2}, rs \in { << >>, <<R(1)>>, <<R(1), R(2)>>, <<R(3), R(1), R(2)>> } }
Init == KInit /\ ins = << >> /\ outs = << >>
APublish(m) == npub < MaxMsgs /\ Publish(m) /\ ins' = Append(ins, m) /\ UNCHANGED outs
AOut == /\ pending # << >>
        /\ Out([nums |-> [f \in { g \in NumFields : Head(pending).nums[g] # 0 } |-> Head(pending).nums[f]],
                strs |-> [f \in { g \in StrFields : Head(pending).strs[g] # << >> } |-> Head(pending).strs[f]]])
        /\ outs' = Append(outs, Head(pending)) /\ UNCHANGED ins
Next == (\E m \in Msgs : APublish(m)) \/ AOut
Spec == Init /\ [][Next]_<<kvars, ins, outs>>
RECURSIVE Flatten(_)
Flatten(s) == IF s = << >> THEN << >>
              ELSE (IF Head(s).kind = "template" THEN << >> ELSE [i \in 1..Len(Head(s).recs) |-> Expected(Head(s), Head(s).recs[i])]) \o Flatten(Tail(s))
OnePerRecordInOrder == outs \o pending = Flatten(ins)
=============================================================================
