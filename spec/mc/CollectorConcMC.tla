--------------------------- MODULE CollectorConcMC ---------------------------
EXTENDS CollectorConc, TLC
Spec == CCInit /\ [][CCNext]_ccvars
\* the consumer keeps draining, readers and Stop make progress
FairSpec == Spec /\ \A c \in Clients : WF_ccvars(Handoff(c)) /\ WF_ccvars(ReaderExit(c)) /\ WF_ccvars(ReaderRead(c))
                 /\ WF_ccvars(StopReturn)
StopTerminates == stopping ~> stopped
=============================================================================
