SPECIFICATION Spec
CONSTANT MaxOps = 5
INVARIANT LengthBookkeeping
INVARIANT SerializedLength
INVARIANT RecordLengths
INVARIANT HdrLenNeverAhead
INVARIANT SerializeOK
PROPERTY ResetIsNew
CHECK_DEADLOCK FALSE
