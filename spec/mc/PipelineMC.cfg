SPECIFICATION Spec
CONSTANT MaxLen = 65535
CONSTANT MaxOps = 6
CONSTANT Lossy = TRUE
INVARIANT AtMostOnceInOrder
INVARIANT ReliablePrefix
INVARIANT Accounted
CHECK_DEADLOCK FALSE
