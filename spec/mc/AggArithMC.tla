----------------------------- MODULE AggArithMC -----------------------------
(* Exhaustive model for C05: all record / reset histories of ONE flow (two reporting nodes that *)
(* need correlation, or one uncorrelated stream) within the exporter contract: per node end     *)
(* times strictly increase, totals do not decrease, end > start.  The transitions are the       *)
(* code-shaped += / diff*8/dt of Aggregation.tla; the invariant ArithmeticOK is the declarative *)
(* reading of the property over the recorded history.  A second key checks independence.        *)
EXTENDS Aggregation, TLC
CONSTANTS MaxEnd, MaxTot, MaxDelta, MaxRecs, Stream     \* Stream: "inter" | "single"

K == "k1"
K2 == "k2"
Rec(k, node, st, en, tot, dl) ==
  [key |-> k,
   sp |-> IF node \in {"src", "single"} THEN "ps" ELSE "",
   dp |-> IF node \in {"dst", "single"} THEN "pd" ELSE "",
   sns |-> IF node \in {"src", "single"} THEN "ns" ELSE "", dns |-> IF node \in {"dst", "single"} THEN "nd" ELSE "",
   ftype |-> IF node = "single" THEN 1 ELSE 2, egress |-> 0, ingress |-> 0, prio |-> 0, cip |-> <<0, 0, 0, 0>>,
   start |-> st, end |-> en,
   vals |-> <<tot, dl, 2 * tot, tot, dl, 3 * tot>>,      \* different multipliers per element
   reason |-> 2]

Nodes == IF Stream = "inter" THEN {"src", "dst"} ELSE {"single"}
NodeRecs(k, n) == IF k \notin Held THEN << >> ELSE IF n = "dst" THEN hist[k].recsD ELSE hist[k].recsS
LastEnd(k, n) == IF NodeRecs(k, n) = << >> THEN 0 ELSE Last(NodeRecs(k, n)).end
LastTot(k, n) == IF NodeRecs(k, n) = << >> THEN 0 ELSE Last(NodeRecs(k, n)).vals[1]
FlowStart(k) == IF k \in Held THEN flows[k].start ELSE 0

Init == AgInit
AIngest(k, n, en, tot, dl) ==
  /\ Len(NodeRecs(k, n)) < MaxRecs
  /\ en > LastEnd(k, n) /\ tot >= LastTot(k, n)                       \* exporter contract
  /\ \E st \in {0, FlowStart(k)} : st < en /\ (k \in Held => st = FlowStart(k)) /\
       \E latest \in BOOLEAN : Ingest(Rec(k, n, st, en, tot, dl), latest)
AReset(k) == ResetStats(k)
Next ==
  \/ \E n \in Nodes, en \in 1..MaxEnd, tot \in 0..MaxTot, dl \in 0..MaxDelta : AIngest(K, n, en, tot, dl)
  \/ AReset(K)
  \/ \E n \in Nodes : AIngest(K2, n, 1, 1, 1)
Spec == Init /\ [][Next]_agvars

\* records of different 5-tuples never affect each other; exactly one flow per distinct 5-tuple
Independence == [][\A k \in {K, K2} : (k \in Held /\ k \in DOMAIN flows' /\ hist'[k] = hist[k]) => flows'[k] = flows[k]]_agvars
OneFlowPerKey == /\ Held \subseteq {K, K2}
                 /\ \A k \in {K, K2} : (k \in Held) = (k \in DOMAIN hist)
ResetOnlyDeltaAndTput ==
  [][\A k \in Held : (k \in DOMAIN flows' /\ hist'[k].srS = 0 /\ hist'[k].srD = 0 /\ (hist[k].srS > 0 \/ hist[k].srD > 0)) =>
        /\ \A i \in (1..NStats) \ DeltaIdx : /\ flows'[k].com[i] = flows[k].com[i]
                                             /\ flows'[k].frS[i] = flows[k].frS[i] /\ flows'[k].frD[i] = flows[k].frD[i]
        /\ flows'[k].end = flows[k].end /\ flows'[k].endS = flows[k].endS /\ flows'[k].endD = flows[k].endD]_agvars
=============================================================================
