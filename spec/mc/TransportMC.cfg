INIT Init
NEXT Next
INVARIANT EstablishedImpliesVerified
INVARIANT DeliveryImpliesClientAuth
INVARIANT NoPlaintext
INVARIANT DtlsRefusesUnverifiable
CHECK_DEADLOCK FALSE
INVARIANT NoSkewTolerance
