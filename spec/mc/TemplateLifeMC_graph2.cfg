SPECIFICATION Spec
CONSTANT Keys = {"k1", "k2"}
CONSTANT Vers = {"v1", "v2"}
CONSTANT TTL = 2
CONSTANT MaxNow = 4
CONSTANT MaxObj = 2
CONSTANT MaxCb = 2
INVARIANT NoEarlyDrop
INVARIANT ExpiryPending
INVARIANT NoOutlive
CHECK_DEADLOCK FALSE
