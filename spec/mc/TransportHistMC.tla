--------------------------- MODULE TransportHistMC ---------------------------
(* Histories of exporter attempts against long-lived collector endpoints: every sequence of up   *)
(* to MaxLen attempts over two endpoints, each attempt with its own trust configuration and any  *)
(* outcome the policy allows.  HistoryFree: nothing established rests on an earlier attempt.      *)
EXTENDS Transport, TLC
CONSTANT MaxLen
\* what varies between exporting processes that talk to one endpoint: the CA they trust (the endpoint's
\* certificate chains to it or not), the ServerName they expect, and when they connect (validity)
HCells == { [side |-> "exporter", proto |-> "tls", srvCert |-> sc, srvName |-> sn, cliCert |-> "none", cliCA |-> FALSE,
             peerMax |-> pm, plain |-> FALSE, cfg |-> "ok", nb |-> pd[1], na |-> pd[2], addr |-> "ip", srvChain |-> "A"] :
            sc \in {"trusted", "otherCA"}, sn \in {"match", "mismatch"}, pm \in {12, 13},
            pd \in { <<-3600, 43200>>, <<120, 43200>> } }
Init == sess = << >>
Total == IF DOMAIN sess = {} THEN 0 ELSE (IF 1 \in DOMAIN sess THEN Len(sess[1]) ELSE 0) + (IF 2 \in DOMAIN sess THEN Len(sess[2]) ELSE 0)
Next == Total < MaxLen /\ \E s \in {1, 2}, c \in HCells, est \in BOOLEAN : Attempt(s, c, est)
Spec == Init /\ [][Next]_sess
\* every attempt's outcome is a function of its own cell
OutcomeOwn == \A s \in DOMAIN sess : \A i \in DOMAIN sess[s] :
                sess[s][i].est = (ExporterEstablishes(sess[s][i].cell) = "yes")
\* coverage: the interesting histories are reachable (violated = reachable, used once by hand)
NeverRefusedAfterAdmitted == \A s \in DOMAIN sess : ~RefusedAfterAdmitted(s)
=============================================================================
