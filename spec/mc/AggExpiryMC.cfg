SPECIFICATION Spec
CONSTANT Keys = {"k1", "k2"}
CONSTANT MaxNow = 5
CONSTANT ActiveT = 2
CONSTANT InactiveT = 3
CONSTANT MaxRetries = 1
CONSTANT MinU = 0
INVARIANT Agreement
INVARIANT ReadyComplete
INVARIANT RetriesBounded
INVARIANT CallbackIff
INVARIANT InactiveRemovesActiveKeeps
INVARIANT FailureKeepsFlow
INVARIANT NeverHalfFilled
INVARIANT ReadyAtOnce
CHECK_DEADLOCK FALSE
VIEW View
