SPECIFICATION WPFair
CONSTANT Workers = {"w1", "w2"}
CONSTANT NMsgs = 2
PROPERTY StopCompletes
CHECK_DEADLOCK FALSE
