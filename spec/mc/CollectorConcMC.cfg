SPECIFICATION FairSpec
CONSTANT Clients = {1, 2}
CONSTANT NMsgs = 2
CONSTANT Lossy = FALSE
INVARIANT PerConnOrder
INVARIANT OnlyWritten
INVARIANT ExactlyOnce
INVARIANT CountZero
PROPERTY AfterStop
PROPERTY StopTerminates
CHECK_DEADLOCK FALSE
