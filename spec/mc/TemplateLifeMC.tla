--------------------------- MODULE TemplateLifeMC ---------------------------
EXTENDS TemplateLife, TLC
CONSTANTS MaxNow, MaxObj, MaxCb

Init == TLInit
\* bounded wrappers (named so that the dumped state graph carries the action and its arguments)
ATemplate(k, v) == (store[k] = None => Len(timers) < MaxObj) /\ Template(k, v)
ABadTemplate(k) == BadTemplate(k)
AData(k) == Data(k)
ATick == now < MaxNow /\ Tick
AFire(o) == Len(cbs) < MaxCb /\ Fire(o)
ACbRead(i) == CbRead(i)
ACbRun(i) == CbRun(i)
Next ==
  \/ \E k \in Keys, v \in Vers : ATemplate(k, v)
  \/ \E k \in Keys : ABadTemplate(k)
  \/ \E k \in Keys : AData(k)
  \/ ATick
  \/ \E o \in 1..MaxObj : AFire(o)
  \/ \E i \in 1..MaxCb : ACbRead(i)
  \/ \E i \in 1..MaxCb : ACbRun(i)
Spec == Init /\ [][Next]_tlvars

\* liveness: with fair firing and callbacks and no further refresh, an expired template goes away.
\* (checked in the fair configuration, where refreshes stop after MaxNow)
Fairness == /\ \A o \in 1..MaxObj : WF_tlvars(Len(cbs) < MaxCb /\ Fire(o))
            /\ \A i \in 1..MaxCb : WF_tlvars(CbRead(i)) /\ WF_tlvars(CbRun(i))
NextNoRefreshAtEnd ==
  \/ \E k \in Keys, v \in Vers : now < MaxNow /\ (store[k] = None => Len(timers) < MaxObj) /\ Template(k, v)
  \/ \E k \in Keys : now < MaxNow /\ BadTemplate(k)
  \/ now < MaxNow /\ Tick
  \/ \E o \in 1..Len(timers) : Len(cbs) < MaxCb /\ Fire(o)
  \/ \E i \in 1..Len(cbs) : CbRead(i)
  \/ \E i \in 1..Len(cbs) : CbRun(i)
FairSpec == Init /\ [][NextNoRefreshAtEnd]_tlvars /\ Fairness
EventuallyDiscarded == \A k \in Keys : [](now = MaxNow => <>(store[k] = None \/ now < store[k].expiry))
=============================================================================
