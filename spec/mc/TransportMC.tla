----------------------------- MODULE TransportMC -----------------------------
(* The whole configuration matrix as initial states; invariants state the property over the    *)
(* policy: an established exporter session implies a verified, in-validity, name-matching      *)
(* server at TLS >= 1.2; delivery with a client CA implies a client certificate from that CA;  *)
(* no plaintext cell is ever established or delivered.                                         *)
EXTENDS Transport, TLC
VARIABLE cell
Cells == [side : {"exporter", "collector"}, proto : {"tls", "dtls"}, srvCert : SrvCerts, srvName : SrvNames,
          cliCert : CliCerts, cliCA : BOOLEAN, peerMax : {11, 12, 13}, plain : BOOLEAN, cfg : {"ok", "badCA", "badKey"}]
Init == cell \in Cells
Next == UNCHANGED cell
EstablishedImpliesVerified ==
  (cell.side = "exporter" /\ cell.proto = "tls" /\ ExporterEstablishes(cell) = "yes") =>
     (Chains(cell.srvCert) /\ InValidity(cell.srvCert) /\ cell.srvCert = "trusted" /\ cell.srvName # "mismatch" /\ cell.peerMax >= 12 /\ ~cell.plain)
DeliveryImpliesClientAuth ==
  (cell.side = "collector" /\ cell.proto = "tls" /\ cell.cliCA /\ CollectorDelivers(cell) = "yes") => cell.cliCert = "trusted"
NoPlaintext == /\ cell.plain => (ExporterEstablishes(cell) = "no" /\ CollectorDelivers(cell) = "no")
               /\ cell.cfg # "ok" => ExporterEstablishes(cell) = "no"
DtlsRefusesUnverifiable ==
  (cell.side = "exporter" /\ cell.proto = "dtls" /\ cell.srvCert \in {"otherCA", "selfSigned", "expired", "notYetValid"}) => ExporterEstablishes(cell) = "no"
=============================================================================
