----------------------------- MODULE TransportMC -----------------------------
(* The whole configuration matrix as initial states; invariants state the property over the    *)
(* policy: an established exporter session implies a verified, in-validity, name-matching      *)
(* server at TLS >= 1.2; delivery with a client CA implies a client certificate from that CA;  *)
(* no plaintext cell is ever established or delivered.                                         *)
EXTENDS Transport, TLC
VARIABLE cell
\* validity periods: long valid, not yet valid (by a day / by two minutes), expired (a day / a minute ago), about to end
Periods == { <<-3600, 43200>>, <<86400, 172800>>, <<120, 43200>>, <<-172800, -86400>>, <<-3600, -60>>, <<-120, 120>> }
\* every value of every dimension that the side in question looks at; the other side's dimensions at a default
ExpCells == { [side |-> "exporter", proto |-> pr, srvCert |-> sc, srvName |-> sn, cliCert |-> cc, cliCA |-> FALSE, peerMax |-> pm,
               plain |-> pl, cfg |-> cf, nb |-> pd[1], na |-> pd[2], addr |-> ad, srvChain |-> "A"] :
              pr \in {"tls", "dtls"}, sc \in SrvCerts, sn \in SrvNames, cc \in {"none", "trusted"},
              pm \in {11, 12, 13}, pl \in BOOLEAN, cf \in {"ok", "badCA", "badKey"}, pd \in Periods, ad \in {"ip", "host", "ip2"} }
ColCells == { [side |-> "collector", proto |-> pr, srvCert |-> "trusted", srvName |-> "match", cliCert |-> cc, cliCA |-> ca, peerMax |-> pm,
               plain |-> pl, cfg |-> "ok", nb |-> -3600, na |-> 43200, addr |-> "ip", srvChain |-> ch] :
              pr \in {"tls", "dtls"}, cc \in CliCerts, ca \in BOOLEAN, pm \in {11, 12, 13}, pl \in BOOLEAN, ch \in {"A", "Bbundle"} }
Cells == ExpCells \cup ColCells
Init == cell \in Cells /\ sess = << >>
Next == UNCHANGED << cell, sess >>
EstablishedImpliesVerified ==
  (cell.side = "exporter" /\ cell.proto = "tls" /\ ExporterEstablishes(cell) = "yes") =>
     (Chains(cell.srvCert) /\ cell.nb <= 0 /\ cell.na >= 0 /\ cell.srvCert \in {"trusted", "hostSAN"} /\ cell.srvName # "mismatch" /\ cell.peerMax >= 12 /\ ~cell.plain
      /\ (cell.srvCert = "hostSAN" => (cell.srvName = "unset" /\ cell.addr = "host"))
      /\ (cell.srvCert = "trusted" /\ cell.srvName = "unset" => cell.addr = "ip"))   \* neither by host name nor at another address
DeliveryImpliesClientAuth ==
  (cell.side = "collector" /\ cell.proto = "tls" /\ cell.cliCA /\ CollectorDelivers(cell) = "yes") => cell.cliCert = "trusted"
NoPlaintext == /\ cell.plain => (ExporterEstablishes(cell) = "no" /\ CollectorDelivers(cell) = "no")
               /\ cell.cfg # "ok" => ExporterEstablishes(cell) = "no"
DtlsRefusesUnverifiable ==
  (cell.side = "exporter" /\ cell.proto = "dtls" /\ (cell.srvCert \in {"otherCA", "selfSigned"} \/ cell.nb > 0 \/ cell.na < 0)) => ExporterEstablishes(cell) = "no"
\* no tolerance: a certificate that becomes valid in two minutes, or ran out a minute ago, is refused
NoSkewTolerance ==
  (cell.side = "exporter" /\ (cell.nb > 0 \/ cell.na < 0)) => ExporterEstablishes(cell) = "no"
=============================================================================
