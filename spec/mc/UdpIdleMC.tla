------------------------------ MODULE UdpIdleMC ------------------------------
(* Bounded exploration of UdpIdle with a delivery history: per source, deliveries are strictly increasing  *)
(* (at most once, in order) and every datagram written outside a gray phase is delivered before the next   *)
(* Quiet of its source can happen (nothing is lost while the source is active).                             *)
EXTENDS UdpIdle, TLC
CONSTANT MaxSend
VARIABLES nsent, dl, sentNG       \* dl: source -> delivered ids; sentNG: source -> non-gray ids written
mvars == << uvars, nsent, dl, sentNG >>
Init == UInit /\ nsent = 0 /\ dl = [s \in Srcs |-> << >>] /\ sentNG = [s \in Srcs |-> << >>]
Next ==
  \/ \E s \in Srcs : /\ nsent < MaxSend /\ ~stopped /\ Send(s, nsent + 1) /\ nsent' = nsent + 1
                     /\ sentNG' = IF s \in gray THEN sentNG ELSE [sentNG EXCEPT ![s] = Append(@, nsent + 1)]
                     /\ UNCHANGED dl
  \/ \E s \in Srcs : \E k \in 1..Len(pend[s]) :
        /\ Deliver(s, pend[s][k].i) /\ dl' = [dl EXCEPT ![s] = Append(@, pend[s][k].i)] /\ UNCHANGED << nsent, sentNG >>
  \/ \E s \in Srcs : ~stopped /\ EnterGray(s) /\ UNCHANGED << nsent, dl, sentNG >>
  \/ \E s \in Srcs, n \in 0..Cardinality(Srcs) : ~stopped /\ Quiet(s, n) /\ UNCHANGED << nsent, dl, sentNG >>
  \/ Stop /\ UNCHANGED << nsent, dl, sentNG >>
Spec == Init /\ [][Next]_mvars
Increasing(q) == \A a, b \in 1..Len(q) : a < b => q[a] < q[b]
InOrderAtMostOnce == \A s \in Srcs : Increasing(dl[s])
IsSubSeqOf(a, b) == \* a is a subsequence of b (both increasing): every element of a occurs in b
  \A k \in 1..Len(a) : \E m \in 1..Len(b) : b[m] = a[k]
\* at a moment when nothing of s is pending (and the process runs), every non-gray datagram of s was delivered
NoLossWhileActive == \A s \in Srcs : (~stopped /\ pend[s] = << >>) => IsSubSeqOf(sentNG[s], dl[s])
=============================================================================
