----------------------------- MODULE ExporterMC -----------------------------
(* Exhaustive small-scope model of the sequential exporter: all mixes of valid and invalid    *)
(* sends; the wire is kept as a history and the C08 / C09 statements are invariants over it.  *)
EXTENDS Exporter, TLC
CONSTANT MaxOps
VARIABLES wire, k     \* wire: sequence of [bytes, stype, hdrId, nrec]

U8  == [id |-> 4,   ent |-> 0,     len |-> 1,     type |-> "unsigned8"]
STR == [id |-> 101, ent |-> 56506, len |-> 65535, type |-> "string"]
Rep(b, n) == [i \in 1..n |-> b]

T(id, fs) == [stype |-> "template", hdrId |-> 2, recs |-> << [kind |-> "template", tid |-> id, fields |-> fs, vals |-> << >>] >>]
D(id, recs) == [stype |-> "data", hdrId |-> id, recs |-> recs]
R1(id, v)    == [kind |-> "data", tid |-> id, fields |-> <<U8>>, vals |-> << <<v>> >>]
R2(id, v, n) == [kind |-> "data", tid |-> id, fields |-> <<U8, STR>>, vals |-> << <<v>>, Rep(66, n) >>]
RBad(id)     == [kind |-> "data", tid |-> id, fields |-> <<U8>>, vals |-> << <<1, 2>> >>]   \* ill-typed

Sets == { T(256, <<U8>>), T(257, <<U8, STR>>), T(256, <<U8, STR>>) }
   \cup UNION { { D(id, rs) : rs \in { << >> } \cup { <<r>> : r \in {R1(id, 7), R2(id, 8, 0), R2(id, 9, 30), RBad(id)} }
                              \cup { <<R1(id, 1), R1(id, 2)>>, <<R1(id, 1), R2(id, 2, 1)>>, <<R1(id, 1), R1(id, 2), R1(id, 3)>> } }
                 : id \in {256, 257, 300} }
   \cup { D(256, <<R2(257, 1, 1)>>), D(257, <<R1(256, 1)>>) }        \* set id and record id disagree
   \cup { [stype |-> "undef", hdrId |-> 0, recs |-> << >>] }

Init == /\ \E s0 \in { <<0, 0>>, <<65535, 65534>> } : ExInit(<<0, 7>>, s0)
        /\ wire = << >> /\ k = 0

Emit(s) == wire' = Append(wire, [bytes |-> MsgBytes(s, 5, seq'), stype |-> s.stype, hdrId |-> s.hdrId,
                                 nrec |-> Len(s.recs), nf |-> [i \in 1..Len(s.recs) |-> Len(s.recs[i].fields)],
                                 known |-> DOMAIN tmpl'])
Quiet == UNCHANGED wire

Next ==
  /\ k < MaxOps /\ k' = k + 1
  /\ \/ \E s \in Sets :
          \/ s.stype = "undef" /\ SendUndefined /\ Quiet
          \/ SendTemplateOK(s) /\ Emit(s)
          \/ SendTemplateTooLong(s) /\ Quiet
          \/ SendDataInsane(s) /\ Quiet
          \/ SendDataOK(s) /\ Emit(s)
          \/ SendDataFailsLate(s) /\ Quiet
     \/ Close /\ Quiet
Spec == Init /\ [][Next]_<<exvars, wire, k>>

\* C09 over the wire history
NeverInvalid == \A i \in 1..Len(wire) : LET m == wire[i] IN
  /\ Len(m.bytes) <= MaxLen
  /\ m.stype = "data" =>
       /\ m.hdrId \in m.known                      \* template known when the data set was sent (also if empty)
  /\ LET h == ParseHeader(m.bytes) IN
       /\ h.ok /\ h.version = 10 /\ h.length = Len(m.bytes) /\ h.setLen = Len(m.bytes) - MsgHdrLen
       /\ h.setId = (IF m.stype = "template" THEN 2 ELSE m.hdrId)
\* C08 over the wire history: header sequence number = records so far (mod 2^32), when nothing failed late
SeqOnWire == failAdv = 0 =>
  \A i \in 1..Len(wire) :
     LET RECURSIVE S(_)
         S(j) == IF j = 0 THEN 0 ELSE S(j - 1) + (IF wire[j].stype = "data" THEN wire[j].nrec ELSE 0)
     IN ParseHeader(wire[i].bytes).seq = AddLimbs(ParseHeader(wire[1].bytes).seq,
                                                  S(i) - (IF wire[1].stype = "data" THEN wire[1].nrec ELSE 0))
OneMessagePerSuccess == nmsg = Len(wire)
NothingAfterClose == [][~open => wire' = wire]_<<exvars, wire, k>>
=============================================================================
