---------------------------- MODULE CollectorMC ----------------------------
(* Exhaustive small-scope model for C04 (and the mode clauses of C17): all histories of        *)
(* template / bad-template / data messages over 2 domains x 2 ids x template versions.         *)
(* The model keeps its OWN bookkeeping of "latest valid version since the last invalidation"   *)
(* (hist) and the invariants compare the byte-level Collector.tla against it.                  *)
EXTENDS Collector, TLC
CONSTANT MaxOps, MCMode
VARIABLES hist, last, k

FU8  == [id |-> 4,  entb |-> <<0, 0, 0, 0>>, len |-> 1,     type |-> "unsigned8",  name |-> "protocolIdentifier"]
FU16 == [id |-> 7,  entb |-> <<0, 0, 0, 0>>, len |-> 2,     type |-> "unsigned16", name |-> "sourceTransportPort"]
STR == [id |-> 82, entb |-> <<0, 0, 0, 0>>, len |-> 65535, type |-> "string",     name |-> "interfaceName"]
UNK == [id |-> 999, entb |-> <<0, 0, 0, 0>>, len |-> 2,    type |-> "octetArray", name |-> ""]
MicroT == [id |-> 154, entb |-> <<0, 0, 0, 0>>, len |-> 8, type |-> "dateTimeMicroseconds", name |-> "flowStartMicroseconds"]

MCReg == [x \in { <<f.entb, f.id>> : f \in {FU8, FU16, STR, MicroT} } |->
            CHOOSE f \in {FU8, FU16, STR, MicroT} : <<f.entb, f.id>> = x]

Doms == { <<0, 1>>, <<0, 2>> }
Tids == { 256, 257 }
Versions == [v1 |-> <<FU8, FU16>>, v2 |-> <<FU16, FU8>>, v3 |-> <<STR>>, v4 |-> <<FU8, UNK>>]
VNames == DOMAIN Versions

Msg(d, setId, body) == EncMessage(100, <<0, 0>>, d, EncSet(setId, body))
TemplateMsg(d, t, v) == Msg(d, 2, EncTemplateRecord(t, Versions[v]))
BadLateMsg(d, t)  == Msg(d, 2, BE2(t) \o BE2(3) \o FieldSpec(FU8) \o <<0, 7>>)       \* third specifier missing, second cut
BadTypeMsg(d, t)  == Msg(d, 2, EncTemplateRecord(t, <<FU8, MicroT>>))                 \* unsupported type: fails after the id
BadEarlyMsg(d)    == Msg(d, 2, <<1>>)                                                \* id cannot be read
DataMsg(d, t)     == Msg(d, t, <<1, 2, 3>>)                                          \* decodes under v1, v2, v4(keep); not v3
ShortData(d, t)   == Msg(d, t, <<1, 2>>)                                             \* too short for v1, v2

None == "none"
ValidIn(v) == v \in {"v1", "v2", "v3"} \/ (v = "v4" /\ Mode # "Strict")

Init == CInit /\ mode = MCMode /\ hist = [x \in Doms \X Tids |-> None] /\ last = [kind |-> "Init"] /\ k = 0

Do(bytes, h2) ==
  LET o == Outcome(bytes) IN
    /\ Recv(bytes, o)
    /\ last' = [kind |-> o.kind, recs |-> IF o.kind = "Data" THEN o.recs ELSE << >>]
    /\ hist' = h2

Next ==
  /\ k < MaxOps /\ k' = k + 1
  /\ \E d \in Doms, t \in Tids :
       \/ \E v \in VNames : Do(TemplateMsg(d, t, v), [hist EXCEPT ![<<d, t>>] = IF ValidIn(v) THEN v ELSE None])
       \/ Do(BadLateMsg(d, t), [hist EXCEPT ![<<d, t>>] = None])
       \/ Do(BadTypeMsg(d, t), [hist EXCEPT ![<<d, t>>] = None])
       \/ Do(BadEarlyMsg(d), hist)
       \/ Do(DataMsg(d, t), hist)
       \/ Do(ShortData(d, t), hist)
Spec == Init /\ [][Next]_<<colvars, hist, last, k>>

\* C04: the store holds exactly the latest valid template per (domain, id) since the last invalidation
StoreIsLatestValid ==
  \A x \in Doms \X Tids :
     IF hist[x] = None THEN x \notin DOMAIN store
     ELSE x \in DOMAIN store /\ \A i \in 1..Len(store[x]) : /\ store[x][i].id = Versions[hist[x]][i].id
                                                            /\ store[x][i].len = Versions[hist[x]][i].len
\* C04: an action on one key leaves every other key alone
Independence ==
  [][\A x \in Doms \X Tids : (hist'[x] = hist[x]) =>
        ((x \in DOMAIN store) = (x \in DOMAIN store') /\ (x \in DOMAIN store => store'[x] = store[x]))]_<<colvars, hist, last, k>>
\* C04/C03: what a data set decodes to is decided by the version in force
=============================================================================
