--------------------------- MODULE ExporterConcMC ---------------------------
EXTENDS ExporterConc, TLC
Spec == ECInit /\ [][ECNext]_ecvars
FairSpec == Spec /\ WF_ecvars(RefSend) /\ WF_ecvars(RefStop) /\ WF_ecvars(ChkStop) /\ WF_ecvars(ChkTick)
                 /\ \A c \in Closers : WF_ecvars(CloseReturn(c))
\* liveness: a Close that was invoked returns
CloseTerminates == \A c \in Closers : (closer[c] = "wait") ~> (closer[c] = "done")
=============================================================================
