SPECIFICATION FairSpec
CONSTANT Keys = {"k1"}
CONSTANT Vers = {"v1"}
CONSTANT TTL = 2
CONSTANT MaxNow = 4
CONSTANT MaxObj = 2
CONSTANT MaxCb = 2
PROPERTY EventuallyDiscarded
CHECK_DEADLOCK FALSE
