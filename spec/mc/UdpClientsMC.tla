---- MODULE UdpClientsMC ----
EXTENDS UdpClients, TLC
====
