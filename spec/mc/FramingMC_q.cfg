SPECIFICATION Spec
CONSTANT Conns = {1, 2}
CONSTANT MaxChunk = 8
CONSTANT BadPos <- BP20
CONSTANT RegFn <- MCReg
INVARIANT OnlyStreamMessagesInOrder
INVARIANT CompleteAtEnd
INVARIANT EndKind
PROPERTY NothingAfterEnd
CHECK_DEADLOCK FALSE
