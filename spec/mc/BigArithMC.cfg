INIT Init
NEXT Next
INVARIANT SubOK
INVARIANT GeOK
INVARIANT MulDivOK
INVARIANT Big
CHECK_DEADLOCK FALSE
