SPECIFICATION Spec
CONSTANT MaxMsgs = 3
INVARIANT OnePerRecordInOrder
CHECK_DEADLOCK FALSE
