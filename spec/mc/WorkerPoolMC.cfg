SPECIFICATION WPFair
CONSTANT Workers = {"w1", "w2"}
CONSTANT NMsgs = 2
INVARIANT MutexOK
CHECK_DEADLOCK FALSE
