---------------------------- MODULE AggExpiryMC ----------------------------
(* Exhaustive model for C06 / C07: all histories of {record of some kind for key k, advance    *)
(* time, expiry scan with any failing-key set and any admissible pop order}.                   *)
EXTENDS Aggregation, TLC
CONSTANTS Keys, MaxNow
VARIABLES scan      \* history: result of the last action if it was a scan, else [none]

Kinds == {"intra", "src", "dst", "deny"}
Rec(k, kind) ==
  [key |-> k,
   sp |-> IF kind \in {"intra", "src", "deny"} THEN "ps" ELSE "",
   dp |-> IF kind \in {"intra", "dst"} THEN "pd" ELSE "",
   sns |-> IF kind \in {"intra", "src", "deny"} THEN "ns" ELSE "",
   dns |-> IF kind \in {"intra", "dst"} THEN "nd" ELSE "",
   ftype |-> IF kind = "intra" THEN 1 ELSE 2,
   egress |-> IF kind = "deny" THEN 2 ELSE 0, ingress |-> 0, prio |-> IF kind = "dst" THEN -1 ELSE 0, cip |-> IF kind = "dst" THEN <<10, 96, 0, 1>> ELSE <<0, 0, 0, 0>>,
   start |-> 0, end |-> 1, vals |-> Zero6, reason |-> 2]      \* arithmetic is not the subject here

\* VIEW: the expiry/correlation skeleton (counters and histories are hidden)
Skel(f) == [ready |-> f.ready, retries |-> f.retries, filled |-> f.filled, sp |-> f.sp, dp |-> f.dp,
            ftype |-> f.ftype, egress |-> f.egress]
View == << now, [k \in DOMAIN flows |-> Skel(flows[k])], queue, scan >>

NoScan == [none |-> TRUE]
Init == AgInit /\ scan = NoScan

Perms(S) == { s \in [1..Cardinality(S) -> S] : \A i, j \in 1..Cardinality(S) : i # j => s[i] # s[j] }

AIngest(k, kind) == Ingest(Rec(k, kind), TRUE) /\ scan' = NoScan
AAdvance == now < MaxNow /\ Advance(1) /\ scan' = NoScan
AScan(fail) == \E order \in Perms(ExpiredKeys) :
  /\ LET res == ScanResult(order, fail) IN
       /\ Scan(order, fail, res)
       /\ scan' = [calls |-> res.calls, err |-> res.err, pre |-> queue, preflows |-> flows, t |-> now, fail |-> fail]
Next ==
  \/ \E k \in Keys, kind \in Kinds : AIngest(k, kind)
  \/ AAdvance
  \/ \E fail \in SUBSET Keys : AScan(fail)
Spec == Init /\ [][Next]_<<agvars, scan>>

PreItem(k) == CHOOSE it \in scan.pre : it.key = k
\* callbacks fire exactly for ready flows whose deadline has passed, earliest deadline first
CallbackIff == scan # NoScan =>
  /\ \A i \in 1..Len(scan.calls) : LET it == PreItem(scan.calls[i]) IN
        /\ (it.act <= scan.t \/ it.inact <= scan.t)
        /\ scan.preflows[it.key].ready
  /\ \A i \in 1..(Len(scan.calls) - 1) : MinT(PreItem(scan.calls[i])) <= MinT(PreItem(scan.calls[i + 1]))
  /\ ~scan.err => \A it \in queue : it.act > now /\ it.inact > now        \* nothing overdue is left behind
  /\ ~scan.err => \A it \in scan.pre : (scan.preflows[it.key].ready /\ (it.act <= scan.t \/ it.inact <= scan.t))
                                          => \E i \in 1..Len(scan.calls) : scan.calls[i] = it.key
\* inactive expiry removes the flow, active expiry keeps it and re-arms the active deadline
InactiveRemovesActiveKeeps == scan # NoScan =>
  \A i \in 1..Len(scan.calls) : LET k == scan.calls[i] IN
     (k \notin scan.fail) =>
        IF PreItem(k).inact <= scan.t THEN k \notin Held
        ELSE k \in Held /\ ItemOf(k).act = scan.t + ActiveT /\ ItemOf(k).inact = PreItem(k).inact
\* a failing callback loses nothing
FailureKeepsFlow == scan # NoScan =>
  \A i \in 1..Len(scan.calls) : scan.calls[i] \in scan.fail => (scan.calls[i] \in Held /\ ItemOf(scan.calls[i]) = PreItem(scan.calls[i]))
\* never exported half-filled: a flow that needs correlation is called back only when both sides were seen
NeverHalfFilled == scan # NoScan =>
  \A i \in 1..Len(scan.calls) : LET f == scan.preflows[scan.calls[i]] IN
     (f.ftype = InterNode /\ ~IsDeny(f.egress) /\ ~IsReject(f.ingress)) => (f.filled /\ f.sp # "" /\ f.dp # "")
\* flows that need no correlation are ready at once
ReadyAtOnce == \A k \in Held : LET f == flows[k] IN (f.ftype # InterNode \/ IsDeny(f.egress)) => f.ready
=============================================================================
