----------------------------- MODULE PipelineMC -----------------------------
(* Exhaustive skeleton check of the channel: with loss (UDP) what is delivered is a subsequence *)
(* of what was sent, in order, each at most once; without loss it is a prefix and, at session    *)
(* end, everything.                                                                              *)
EXTENDS Pipeline, TLC
CONSTANTS MaxOps, Lossy
VARIABLES sent, got, k

FU8 == [id |-> 4, ent |-> 0, len |-> 1, type |-> "unsigned8", name |-> "protocolIdentifier"]
T(id) == [stype |-> "template", hdrId |-> 2, recs |-> << [kind |-> "template", tid |-> id, fields |-> <<FU8>>, vals |-> << >>] >>]
D(id, v) == [stype |-> "data", hdrId |-> id, recs |-> << [kind |-> "data", tid |-> id, fields |-> <<FU8>>, vals |-> << <<v>> >>] >>]
Sets == { T(256), T(257), D(256, 1), D(256, 2), D(257, 3) }

Proj(x) == IF x.set.stype = "template"
             THEN [dom |-> x.dom, seq |-> x.seq, kind |-> "Tmpl", tid |-> x.set.recs[1].tid, fields |-> x.set.recs[1].fields]
             ELSE [dom |-> x.dom, seq |-> x.seq, kind |-> "Data", tid |-> x.set.hdrId,
                   recs |-> [i \in 1..Len(x.set.recs) |-> x.set.recs[i].vals],
                   rfields |-> [i \in 1..Len(x.set.recs) |-> x.set.recs[i].fields]]

Init == PInit(<<0, 9>>, Lossy) /\ sent = << >> /\ got = << >> /\ k = 0
ASend(s) == Send(s) /\ sent' = Append(sent, Len(sent) + 1) /\ UNCHANGED got
AFail(s) == SendFails(s) /\ UNCHANGED << sent, got >>
ADeliver(i) == /\ i \in 1..Len(inflight) /\ Deliver(i, Proj(inflight[i]))
               /\ got' = Append(got, sent[Len(sent) - Len(inflight) + i]) /\ UNCHANGED sent
ALose == Lose /\ UNCHANGED << sent, got >>
Next == /\ k < MaxOps /\ k' = k + 1
        /\ \/ \E s \in Sets : ASend(s) \/ AFail(s)
           \/ \E i \in 1..3 : ADeliver(i)
           \/ ALose
Spec == Init /\ [][Next]_<<plvars, sent, got, k>>

Increasing(s) == \A i \in 1..(Len(s) - 1) : s[i] < s[i + 1]
AtMostOnceInOrder == Increasing(got)
ReliablePrefix == ~Lossy => got = SubSeq(sent, 1, Len(got))
Accounted == Len(got) + Len(inflight) <= Len(sent)
=============================================================================
