SPECIFICATION Spec
CONSTANT MaxOps = 4
CONSTANT MCMode = "Strict"
CONSTANT RegFn <- MCReg
INVARIANT StoreIsLatestValid
PROPERTY Independence
CHECK_DEADLOCK FALSE
