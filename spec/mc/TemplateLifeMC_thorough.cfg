SPECIFICATION Spec
CONSTANT Keys = {"k1", "k2"}
CONSTANT Vers = {"v1", "v2"}
CONSTANT TTL = 2
CONSTANT MaxNow = 5
CONSTANT MaxObj = 3
CONSTANT MaxCb = 2
INVARIANT NoEarlyDrop
INVARIANT ExpiryPending
INVARIANT NoOutlive
INVARIANT TimerBelongs
CHECK_DEADLOCK FALSE
