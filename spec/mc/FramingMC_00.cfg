SPECIFICATION Spec
CONSTANT Conns = {1, 2}
CONSTANT MaxChunk = 30
CONSTANT BadPos <- BP00
CONSTANT RegFn <- MCReg
INVARIANT OnlyStreamMessagesInOrder
INVARIANT CompleteAtEnd
INVARIANT EndKind
PROPERTY NothingAfterEnd
CHECK_DEADLOCK FALSE
