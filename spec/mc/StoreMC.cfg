SPECIFICATION Spec
CONSTANT Cap = 3
CONSTANT MaxOps = 9
INVARIANT Bounded
INVARIANT MostRecentInOrder
INVARIANT QueryOK
CHECK_DEADLOCK FALSE
