------------------------------ MODULE BigArith ------------------------------
(***************************************************************************)
(* Unsigned 64-bit arithmetic on four 16-bit limbs (least significant      *)
(* first), for the counters that exceed TLC's 32-bit integers: difference, *)
(* times eight, and division by a small divisor (a number of seconds).     *)
(* Every intermediate value stays below 2^31.                              *)
(***************************************************************************)
EXTENDS Integers, Sequences, Functions, SequencesExt

B == 65536
IsL4(a) == Len(a) = 4 /\ \A i \in 1..4 : a[i] \in 0..(B - 1)
ZeroL == << 0, 0, 0, 0 >>

\* a - b  (for a >= b)
SubL(a, b) ==
  FoldLeft(LAMBDA acc, i : LET d == a[i] - b[i] - acc.borrow IN
                             IF d < 0 THEN [res |-> Append(acc.res, d + B), borrow |-> 1]
                                      ELSE [res |-> Append(acc.res, d), borrow |-> 0],
           [res |-> << >>, borrow |-> 0], << 1, 2, 3, 4 >>).res
\* a >= b
GeL(a, b) == FoldLeft(LAMBDA acc, i : IF a[i] > b[i] THEN TRUE ELSE IF a[i] < b[i] THEN FALSE ELSE acc, TRUE, << 1, 2, 3, 4 >>)

\* 8 * a, five limbs (the fifth is the overflow out of 64 bits)
Mul8L(a) ==
  LET r == FoldLeft(LAMBDA acc, i : LET v == a[i] * 8 + acc.carry IN
                                      [res |-> Append(acc.res, v % B), carry |-> v \div B],
                    [res |-> << >>, carry |-> 0], << 1, 2, 3, 4 >>)
  IN Append(r.res, r.carry)

\* a \div d for a limb sequence of any length and 0 < d < 2^15: quotient as a limb sequence of the same length
DivSmallL(a, d) ==
  LET n == Len(a)
      r == FoldLeft(LAMBDA acc, k : LET i == n + 1 - k                 \* most significant limb first
                                        v == acc.rem * B + a[i] IN
                                      [q |-> << v \div d >> \o acc.q, rem |-> v % d],
                    [q |-> << >>, rem |-> 0], [k \in 1..n |-> k])
  IN r.q

\* throughput in bits per second of an octet growth over dt seconds, as the code computes it in uint64:
\* (8 * growth) \div dt, truncated to 64 bits
TputL(growth, dt) == IF dt <= 0 THEN ZeroL ELSE SubSeq(DivSmallL(SubSeq(Mul8L(growth), 1, 4), dt), 1, 4)
=============================================================================
