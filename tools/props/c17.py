import os, vlib
MODULE = "CollectorTrace"
PROP = "C17"
RULE = 'every template shape over 3 slots x {known fixed, known variable, unknown IANA fixed, unknown enterprise fixed, unknown variable} (two value draws each) and random templates of 1..20 fields with unknown elements at random positions and lengths 0..40/variable; the same wire bytes go to three real collectors (strict, keep, drop); distinct = distinct messages by hash'

def sig(ev):
    e = ev.get("e")
    if e == "Panic":
        d = ev.get("detail", "")
        return "Panic:" + ("index-out-of-range" if "index out of range" in d else d[:40])
    if e == "Hang":
        return "Hang"
    return "Recv:%s" % ev.get("kind")

def run(ck):
    ck.tlc_mc("WireMC", "WireMC.cfg")
    ck.tlc_mc("CollectorMC", "CollectorMC_thorough.cfg" if ck.thorough else "CollectorMC.cfg")
    ck.tlc_mc("CollectorMC", "CollectorMC_keep.cfg")
    b = ck.go_build("ccoll")
    reg = os.path.join(ck.tmp, "registry.json")
    trace, summ = ck.run_driver(b, ["-mode", "c17", "-reg", reg])
    ck.validate(MODULE, trace, sig=sig, env_extra={"REGISTRY": reg})
    ck.assumptions += ["decodePacket is driven in-process through the verif hook VerifDecodePacket (panic capture, 3 s watchdog)",
                       "the registry the specification uses is a dump of the real registry taken by the driver in the same process",
                       "modelled deviations (Collector.tla): header/set length fields ignored, first template record only, registry length substituted for known elements"]
    ck.finish(rule=RULE, technique="TLA+ Collector/Wire specs (TLC exhaustive small scope) + TLC trace validation of recorded decode outcomes against the reference parser")

def replay(path):
    ck = vlib.Check(PROP, "quick", 0)
    b = ck.go_build("ccoll")
    reg = os.path.join(ck.tmp, "registry.json")
    import subprocess
    subprocess.run([b, "-mode", "none", "-reg", reg, "-out", os.path.join(ck.tmp, "x")], cwd=ck.tmp, stdout=subprocess.DEVNULL, stderr=subprocess.DEVNULL)
    os.environ["REGISTRY"] = reg
    verdict, n, out = ck._tlc_trace(MODULE, os.path.abspath(path))
    print("replay %s: %s at line %d" % (path, verdict, n))
    if verdict == "rejected":
        print("VIOLATION property=%s replay=%s" % (PROP, path))
        raise SystemExit(1)
