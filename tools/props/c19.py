"""C19 - Kafka publication."""
import vlib
MODULE = "C19Trace"
PROP = "C19"

def sig(ev):
    return ev.get("e", "?")

def run(ck):
    ck.tlc_mc("KafkaMC", "KafkaMC.cfg", workers=4)
    b = ck.go_build("c19")
    trace, summ = ck.run_driver(b)
    ck.validate(MODULE, trace, sig=sig)
    ck.assumptions += ["the Kafka side is a fake sarama.AsyncProducer owned by the harness (what reaches Input() is what would be published)",
                       "payload fields are read by the harness's own protobuf wire reader with field numbers written down from the .proto files; the consumer-side decoder is the library's DecodeAndPrintMsg, read back through protoreflect",
                       "numeric values stay below 2^31 (TLC integers); IPv6 test addresses avoid IPv4-mapped forms"]
    ck.finish(rule="streams of 25 (quick) / 80 (thorough) template and data messages with 0-4 (sometimes 20-50) records of random field values, both shipped convertors/schemas, IPv4 and IPv6, elements in shuffled order; "
                   "distinct = distinct streams by hash",
              technique="TLA+ Kafka spec (TLC exhaustive: out = flatten(in)) + TLC trace validation of published payloads (length prefix, protobuf fields, consumer-side decode)")

def replay(path):
    vlib.replay(PROP, MODULE, path)
