"""C01 - end-to-end fidelity."""
import vlib
MODULE = "PipelineTrace"
PROP = "C01"

def sig(ev):
    return ev.get("e", "?")

def run(ck):
    ck.tlc_mc("WireMC", "WireMC.cfg")
    ck.tlc_mc("PipelineMC", "PipelineMC.cfg")
    ck.tlc_mc("PipelineMC", "PipelineMC_tcp.cfg")
    b = ck.go_build("c01")
    trace, summ = ck.run_driver(b)
    ck.validate(MODULE, trace, sig=sig)
    # what leaves the exporter while its own refresher is writing too (UDP): one short refresh session of the C14 driver
    b14 = ck.go_build("c14", race=True)
    t14, s14 = ck.run_driver(b14, ["-scen", "refresh"], env_extra={"GORACE": "halt_on_error=0 exitcode=0"}, allow_rc=(0, 2), name="refresh")
    vlib.append_monitor_events(t14, vlib.race_reports(s14["stderr_path"]))
    ck.validate("C14Trace", t14, sig=lambda ev: "Refresh:" + ev.get("e", "?"))
    ck.assumptions += ["exporter and collector run in one process and share the (global) registry; certificates are minted per run",
                       "UDP messages <= 60000 bytes, DTLS messages <= 8000 bytes (transport limits); the largest value that fits a message (65511 bytes) is exercised over TCP and TLS; a 65535-byte value cannot fit any message and is covered at codec level (C15)",
                       "a message not delivered within 3 s on any transport is reported as Lost (no action explains it)"]
    ck.finish(rule="8 sessions {tcp, udp, tls, dtls} x {127.0.0.1, ::1}; templates drawn from the full shipped registry plus one user-registered element of every supported type (1-40 fields), value vectors with boundary/extreme patterns, 1..fit records, variable-length boundaries 0/1/254/255/256/65511; bursts of 1-5 messages between collections; "
                   "distinct = distinct sends by hash",
              technique="TLA+ Pipeline spec (Exporter o channel o delivery; TLC exhaustive channel skeleton) + TLC trace validation of ESend/CDeliver events of real exporter-collector sessions")

def replay(path):
    vlib.replay(PROP, "C14Trace" if "C14Trace" in path else MODULE, path)
