"""C12 - collector under many clients."""
import vlib
MODULE = "C12Trace"
PROP = "C12"

def sig(ev):
    if ev.get("e") == "Race":
        return "Race:" + ",".join(ev.get("funcs", []))
    return ev.get("e", "?")

def run(ck):
    ck.tlc_mc("CollectorConcMC", "CollectorConcMC_thorough.cfg" if ck.thorough else "CollectorConcMC.cfg")
    ck.tlc_mc("CollectorConcMC", "CollectorConcMC_udp.cfg")
    ck.tlc_mc("UdpClientsMC", "UdpClientsMC.cfg")      # the UDP per-source client hand-off (design level: the idle timeout cannot be fired in a real run)
    b = ck.go_build("c12", race=True)
    trace, summ = ck.run_driver(b, env_extra={"GORACE": "halt_on_error=0 exitcode=0"}, allow_rc=(0, 2), timeout=1500)
    vlib.append_monitor_events(trace, vlib.race_reports(summ["stderr_path"]))
    ck.validate(MODULE, trace, sig=sig)
    ck.assumptions += ["Write events are logged before the write starts, Deliver events after the consumer's receive; a delivery is 'after Stop' only if its Write was logged after StopEnd (no verdict depends on the relative order of two goroutines' log calls)",
                       "the consumer keeps draining throughout; Stop latency is checked against 5 s only",
                       "data races are those the Go race detector reports for go-ipfix frames on the schedules actually run (GOMAXPROCS 2 / 16, random Gosched and sleeps)"]
    ck.finish(rule="for tcp / udp / tls and 1, 4, 16 (thorough: 64) concurrent clients: (A) every client writes 2-41 numbered messages with random pauses, one in five closes abruptly after half a message, then connection count, full delivery and Stop are checked; (B) Stop during continuous traffic, clients keep writing afterwards; (C) Stop immediately after the address is published, 20-100 times; "
                   "distinct = scenarios run",
              technique="TLA+ CollectorConc spec (TLC exhaustive interleavings + liveness of Stop) + TLC trace validation of write/deliver/stop events of real concurrent runs under -race")

def replay(path):
    vlib.replay(PROP, MODULE, path)
