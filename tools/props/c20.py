"""C20 - standalone collector's bounded window of rendered records."""
import json, os, re, subprocess, time
import vlib
MODULE = "C20Trace"
PROP = "C20"

def sig(ev):
    return ev.get("e", "?")

def run(ck):
    ck.tlc_mc("StoreMC", "StoreMC.cfg", workers=4)
    ck.tlaps("StoreProof")    # window bound and suffix-of-arrivals for every cap and every history (TLAPS)
    repo = os.environ.get("VERIF_REPO", "/repo")
    src = open(os.path.join(repo, "cmd/collector/collector.go")).read()
    m = re.search(r"maxFlowRecords\s*=\s*(\d+)", src)
    if not m:
        raise vlib.Machinery("cannot find the store's cap constant in cmd/collector/collector.go")
    cap_ = int(m.group(1))
    cfgp = os.path.join(ck.specdir, "C20Trace.cfg")
    cfg = re.sub(r"CONSTANT Cap = \d+", "CONSTANT Cap = %d" % cap_, open(cfgp).read())
    open(cfgp, "w").write(cfg)
    ov = os.path.join(ck.tmp, "overlay.json")
    json.dump({"Replace": {os.path.join(repo, "cmd/collector/verif_c20_test.go"): os.path.join(vlib.HARNESS, "overlay/c20_driver.go.txt")}}, open(ov, "w"))
    trace = os.path.join(ck.tmp, "trace.ndjson")
    env = dict(os.environ, VERIF_OUT=trace, VERIF_SEED=str(ck.seed), VERIF_TIER=ck.tier)
    env.update(vlib.GOENV)
    t = time.time()
    p = subprocess.run(["timeout", "900", "go", "test", "-vet=off", "-count=1", "-overlay", ov, "-run", "TestVerifC20", "-v", "./cmd/collector/"],
                       cwd=repo, env=env, stdout=subprocess.PIPE, stderr=subprocess.STDOUT, text=True)
    summ = None
    for line in p.stdout.splitlines():
        if line.startswith("SUMMARY "):
            summ = json.loads(line[8:])
    if summ is None:
        if os.path.exists(trace) and os.path.getsize(trace) > 0 and re.search(r"^panic: ", p.stdout, flags=re.M):
            vlib.append_monitor_events(trace, [{"e": "Crash", "detail": re.search(r"^panic: (.*)$", p.stdout, flags=re.M).group(1)[:200]}])
            summ = {"events": 0, "evaluations": 1, "distinct_nontrivial": 0}
        else:
            raise vlib.Machinery("in-package driver for cmd/collector failed:\n" + vlib.tail(p.stdout, 30))
    vlib.log("driver (go test -overlay) %s %.1fs" % (summ, time.time() - t))
    ck.evaluations += summ.get("evaluations", 0)
    ck.distinct += summ.get("distinct_nontrivial", 0)
    ck.validate(MODULE, trace, sig=sig)
    ck.extra["cap_read_from_source"] = cap_
    ck.assumptions += ["the driver is compiled into package main of cmd/collector with go's -overlay; nothing is added to the repository",
                       "the cap constant is read from the source at check time and passed to the trace specification (changing it is a changed constant, not a violation)",
                       "expected renderings of values are produced by the driver from the values it generated (strconv / its own formatting), not from the library's getters"]
    ck.finish(rule="histories of 1.5 x cap (quick, x2) / 5 x cap (thorough, x4) arrivals of template and data messages with 1-3 records of 4-14 fields covering every data type the registry has, interleaved with GET /records (counts absent/0/1/.../cap+1/huge/negative/non-numeric; formats absent/json/text/invalid; other methods) and /reset requests; "
                   "distinct = operations",
              technique="TLA+ Store spec (TLC exhaustive, cap 3; TLAPS proof of the bound and of suffix-of-arrivals for every cap) + TLC trace validation of an in-package driver run with the real cap")

def replay(path):
    vlib.replay(PROP, MODULE, path)
