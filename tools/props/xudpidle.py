"""X-UDPIDLE (outside the listed properties) - per-source UDP clients: idle exit, hand-off, re-creation."""
import vlib
MODULE = "UdpIdleTrace"
PROP = "XUDPIDLE"
PATCH = [("pkg/collector/udp.go",
          [("time.NewTicker(time.Duration(entities.TemplateTTL) * time.Second)", "time.NewTicker(VerifUDPIdle)"),
           ("ticker.Reset(time.Duration(entities.TemplateTTL) * time.Second)", "ticker.Reset(VerifUDPIdle)")],
          "// VerifUDPIdle replaces the idle timeout of a UDP client in verification builds (overlay copy only).\n"
          "var VerifUDPIdle = time.Duration(entities.TemplateTTL) * time.Second\n")]

def sig(ev):
    return ev.get("e", "?")

def run(ck):
    ck.tlc_mc("UdpClientsMC", "UdpClientsMC.cfg")
    ck.tlc_mc("UdpIdleMC", "UdpIdleMC.cfg")
    b = ck.go_build("cudp", race=True, patches=PATCH)
    trace, summ = ck.run_driver(b, env_extra={"GORACE": "halt_on_error=0 exitcode=0"}, allow_rc=(0, 2))
    vlib.append_monitor_events(trace, vlib.race_reports(summ["stderr_path"]))
    ck.validate(MODULE, trace, sig=sig)
    ck.assumptions += ["the 1800 s idle timeout is shortened to 600 ms in an overlay copy of the working tree's pkg/collector/udp.go (two textual substitutions; a pattern that no longer matches is a machinery error)",
                       "phases (active / gray / quiet) are decided by the harness clock with 250 ms margins; a non-gray datagram counts as lost only after 5 s; loopback UDP with a draining consumer does not drop datagrams"]
    ck.finish(rule="3 (quick) / 12 (thorough) collector lifetimes, 2-4 sources each: all active, then one source idles and sends 1-3 datagrams within +-10 ms of its client's idle exit (twice) while the others keep sending, comes back after its client left, Stop with clients registered; distinct = datagrams",
              technique="TLA+ UdpIdle / UdpClients specs (TLC exhaustive) + TLC trace validation of a real UDP collector built with a shortened idle timeout")

def replay(path):
    vlib.replay(PROP, MODULE, path)
