"""C16 - set and record builders: length bookkeeping, equivalence of add paths, reuse."""
import vlib

MODULE = "C16Trace"

def sig(ev):
    return "%s:%s" % (ev.get("e"), ev.get("path", ""))

def run(ck):
    ck.tlc_mc("SetBuilderMC", "SetBuilderMC_thorough.cfg" if ck.thorough else "SetBuilderMC.cfg")
    b = ck.go_build("c16")
    trace, summ = ck.run_driver(b)
    ck.validate(MODULE, trace, sig=sig)
    ck.assumptions += ["template records are added with empty-valued elements only (well-formed use)",
                       "the add path argument is ignored by the specification: equivalence of the three paths is what makes all four replicas of a schedule acceptable"]
    ck.finish(rule="random well-formed operation sequences (prepare/add x3 paths/update/reset/serialize) on one reused real set object, each schedule "
                   "replayed on four objects (mixed paths and each path alone); distinct = distinct schedules by hash; a schedule is non-trivial when it has >= 5 operations (all are)",
              technique="TLA+ SetBuilder spec (TLC exhaustive to depth 5-6) + TLC trace validation of recorded builder observations")

def replay(path):
    vlib.replay("C16", MODULE, path)
