"""C11 - TCP framing."""
import os, vlib
MODULE = "FramingTrace"
PROP = "C11"

def sig(ev):
    return ev.get("e", "?")

def run(ck):
    if ck.thorough:
        for n in ("00", "20", "13"):
            ck.tlc_mc("FramingMC", "FramingMC_%s.cfg" % n)
    else:
        ck.tlc_mc("FramingMC", "FramingMC_q.cfg")
    b = ck.go_build("c11")
    reg = os.path.join(ck.tmp, "registry.json")
    trace, summ = ck.run_driver(b, ["-reg", reg])
    ck.validate(MODULE, trace, sig=sig, env_extra={"REGISTRY": reg})
    ck.assumptions += ["(A) uses net.Pipe: every harness write is exactly one read boundary for the collector's reader; (B) uses real loopback sockets with TCP_NODELAY",
                       "all events are logged by one driver goroutine: Seg before the write starts, Deliver right after the receive, End when the handler returned (A) / the connection was dropped or the connection count fell (B)",
                       "each connection uses its own observation domain so that the shared template store cannot couple connections"]
    ck.finish(rule="(A) every single cut point, sampled (quick) / all (thorough) double cut points and a byte-by-byte split of 3-4 message streams, with an undecodable message (4 flavours) at every position, lying and tiny length fields, through the real connection handler; (B) 1-4 real loopback connections with random multi-cuts, delays and long streams; "
                   "distinct = distinct (stream, cut set) by hash",
              technique="TLA+ Framing spec over Collector/Wire (TLC exhaustive: all segmentations/interleavings of two small streams) + TLC trace validation of recorded segment/deliver/end events")

def replay(path):
    ck = vlib.Check(PROP, "quick", 0)
    b = ck.go_build("ccoll")
    reg = os.path.join(ck.tmp, "registry.json")
    import subprocess
    subprocess.run([b, "-mode", "none", "-reg", reg, "-out", os.path.join(ck.tmp, "x")], cwd=ck.tmp, stdout=subprocess.DEVNULL, stderr=subprocess.DEVNULL)
    os.environ["REGISTRY"] = reg
    verdict, n, out = ck._tlc_trace(MODULE, os.path.abspath(path))
    print("replay %s: %s at line %d" % (path, verdict, n))
    if verdict == "rejected":
        print("VIOLATION property=%s replay=%s" % (PROP, path))
        raise SystemExit(1)
