"""C13 - aggregation process is linearizable (TLC linearization search per recorded history)."""
import json, os, re, subprocess, tempfile, shutil, time
import vlib
MODULE = "AggLin"
PROP = "C13"
DFS = "-Dtlc2.tool.queue.IStateQueue=StateDeque -Xss256m"

def search(ck, lines, timeout):
    """returns 'lin' (every history has a linearization), 'none' (search exhausted), 'timeout'"""
    path = tempfile.mktemp(prefix="hist-", suffix=".ndjson", dir=ck.tmp)
    open(path, "w").write("\n".join(lines) + "\n")
    md = tempfile.mkdtemp(prefix="md-", dir=ck.tmp)
    env = dict(os.environ, TRACE=path, JAVA_TOOL_OPTIONS=DFS)
    p = subprocess.run(["timeout", str(timeout), "tlc", "-workers", "1", "-metadir", md, "-config", MODULE + ".cfg", "-noGenerateSpecTE", MODULE + ".tla"],
                       cwd=ck.specdir, env=env, stdout=subprocess.PIPE, stderr=subprocess.STDOUT, text=True)
    shutil.rmtree(md, ignore_errors=True)
    out = p.stdout
    m = re.findall(r"(\d+) states generated, (\d+) distinct states found", out)
    if m:
        ck.extra["lin_states"] = ck.extra.get("lin_states", 0) + int(m[-1][1])
    if "Invariant NotAllDone is violated" in out:
        return "lin"
    if p.returncode == 124:
        return "timeout"
    if "Model checking completed. No error has been found." in out:
        return "none"
    raise vlib.Machinery("linearization search failed to run:\n" + vlib.tail(out, 40))

def monitor_events(stderr_path):
    """Race / crash reports of the -race child that involve go-ipfix code become history lines."""
    txt = open(stderr_path, errors="replace").read()
    evs = []
    for blk in re.split(r"={18}\n", txt):
        if "WARNING: DATA RACE" in blk and "github.com/vmware/go-ipfix/pkg/" in blk:
            funcs = sorted(set(re.findall(r"go-ipfix/pkg/([\w/]+\.\(?\*?\w+\)?\.\w+)", blk)))[:4]
            evs.append({"ops": [{"kind": "Race", "funcs": funcs, "inv": 1, "ret": 2}], "monitor": True})
    m = re.search(r"fatal error: (concurrent map [\w ]+)", txt)
    if m:
        evs.append({"ops": [{"kind": "Crash", "detail": m.group(1), "inv": 1, "ret": 2}], "monitor": True})
    return evs[:5]

def run(ck):
    ck.tlc_mc("AggExpiryMC", "AggExpiryMC.cfg")          # the sequential specification itself is model-checked
    ck.tlc_mc("AggArithMC", "AggArithMC_single.cfg")
    b = ck.go_build("c13", race=True)
    trace, summ = ck.run_driver(b, env_extra={"GORACE": "halt_on_error=0 exitcode=0"}, allow_rc=(0, 2))
    lines = []
    for l in open(trace).read().splitlines():
        if not l.strip():
            continue
        try:
            o = json.loads(l)
        except ValueError:
            continue                      # the driver died while writing this line
        if "ops" not in o:                # the runner's own Crash line (a panic inside go-ipfix killed the driver): a history of its own
            o = {"ops": [{"kind": o.get("e", "Crash"), "detail": o.get("detail", ""), "inv": 1, "ret": 2}], "monitor": True}
        lines.append(json.dumps(o))
    mons = monitor_events(summ["stderr_path"])
    lines += [json.dumps(m) for m in mons]
    ok = inconclusive = 0
    bad = []
    batch = 40
    t0 = time.time()
    for i in range(0, len(lines), batch):
        chunk = lines[i:i + batch]
        if len(bad) >= 3:
            break          # enough counterexamples; the rest is not searched
        r = search(ck, chunk, 240)
        if r == "lin":
            ok += len(chunk)
            continue
        for j, h in enumerate(chunk):     # find the history (or histories) without linearization
            if len(bad) >= 3:
                break
            r1 = search(ck, [h], 90)
            if r1 == "lin":
                ok += 1
            elif r1 == "timeout":
                inconclusive += 1
            else:
                bad.append((i + j, h))
    vlib.log("linearization search: %d histories linearized, %d without linearization, %d inconclusive, %.1fs" % (ok, len(bad), inconclusive, time.time() - t0))
    ck.traces_ok += ok
    ck.events_ok += summ.get("events", 0)
    ck.extra["inconclusive_histories"] = inconclusive
    if lines:
        ck.samples.append(vlib.abbrev(json.loads(lines[0]), 900))
    os.makedirs(os.path.join(vlib.ROOT, "replays"), exist_ok=True)
    for idx, h in bad[:6]:
        rp = os.path.join(vlib.ROOT, "replays", "C13-seed%d-history%d.ndjson" % (ck.seed, idx))
        open(rp, "w").write(h + "\n")
        hj = json.loads(h)
        first = hj["ops"][0]
        s = first["kind"] if hj.get("monitor") else ("Hang" if hj.get("hung") else "NotLinearizable")
        ck.rejections.append(dict(module=MODULE, trace_id=idx, line_in_trace=0, event=vlib.abbrev({"ops": len(hj["ops"]), "first": first}), signature=s, replay=rp, invariant=None))
    if inconclusive > max(3, len(lines) // 10):
        raise vlib.Machinery("too many inconclusive linearization searches (%d of %d)" % (inconclusive, len(lines)))
    ck.assumptions += ["histories are recorded with inv/ret stamps from one atomic counter in the harness; messages handed to the worker pool have no observable completion and are given the stamp taken after a 30 ms quiescence wait",
                       "data races and runtime crashes reported by the Go race detector for go-ipfix frames are appended as operations that no sequential specification explains",
                       "each (key, node) stream has one producer (exporter contract in every linearization) except in the undisciplined family, which relies on the model's stale-record path"]
    ck.finish(rule="concurrent histories (1-16 ingesting goroutines or the built-in worker pool, expiry scans that export and reset, GetRecords/GetNumFlows/GetExpiry, virtual-time shifts; GOMAXPROCS 2/4/16, random Gosched/sleeps) of <= 40 operations under the race detector; each history ends with a full-state query after all goroutines joined; "
                   "distinct = distinct histories by hash; states = states of the exhaustive runs of the sequential specification, lin_states = states explored by the linearization searches",
              technique="TLA+ Aggregation spec as sequential specification + TLC depth-first linearization search (AggLin.tla) over recorded concurrent histories of the real process under -race")

def replay(path):
    ck = vlib.Check(PROP, "quick", 0)
    r = search(ck, [l for l in open(path).read().splitlines() if l.strip()], 300)
    print("replay %s: %s" % (path, {"lin": "linearizable", "none": "NO linearization exists", "timeout": "inconclusive"}[r]))
    if r == "none":
        print("VIOLATION property=%s replay=%s" % (PROP, path))
        raise SystemExit(1)
