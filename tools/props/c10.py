"""C10 - UDP template lifetime."""
import vlib
MODULE = "TemplateLifeTrace"
PROP = "C10"

def sig(ev):
    return ev.get("e", "?")

def run(ck):
    ck.tlc_mc("TemplateLifeMC", "TemplateLifeMC_thorough.cfg" if ck.thorough else "TemplateLifeMC.cfg")
    ck.tlc_mc("TemplateLifeMC", "TemplateLifeMC_live.cfg")
    sched, info = ck.schedules_from_graph("TemplateLifeMC", "TemplateLifeMC_graph2.cfg" if ck.thorough else "TemplateLifeMC_graph.cfg",
                                          maxlen=50 if ck.thorough else 40, maxwalks=None if ck.thorough else 4000)
    b = ck.go_build("c10")
    trace, summ = ck.run_driver(b, ["-sched", sched])
    ck.validate(MODULE, trace, sig=sig)
    ck.assumptions += ["time is the harness clock injected through the verif hook (unit 1 h, TTL 2 units); the callback's clock read is the gate that separates Fire / CbRead / CbRun",
                       "a Now() call arriving while no driver-initiated decode is in progress is attributed to the most recently fired callback (the driver is single-threaded)"]
    ck.finish(rule="engine A: edge-covering walks of TLC's state graph (2 keys, TTL 2, 2 template objects, 2 callbacks in flight; quick: now<=3, 4000 walks sampled by seed out of 67 k edges; thorough: now<=4, every one of 272 k edges: every transition incl. fired-but-pending callbacks) replayed on a real collector with a harness clock; engine B: random schedules over 12 keys; "
                   "distinct = distinct schedules by hash; a schedule is non-trivial when it has at least one step (all)",
              technique="TLA+ TemplateLife spec (TLC exhaustive + liveness under fairness) + replay of TLC state-graph schedules through the real collector + TLC trace validation", exhaustive=ck.thorough)

def replay(path):
    vlib.replay(PROP, MODULE, path)
