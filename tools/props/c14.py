"""C14 - exporter background activity and lifecycle."""
import vlib
MODULE = "C14Trace"
PROP = "C14"

def sig(ev):
    if ev.get("e") == "Race":
        return "Race:" + ",".join(ev.get("funcs", []))
    return ev.get("e", "?")

def run(ck):
    ck.tlc_mc("ExporterConcMC", "ExporterConcMC.cfg")
    ck.tlc_mc("ExporterConcMC", "ExporterConcMC_tcp.cfg")
    b = ck.go_build("c14", race=True)
    trace, summ = ck.run_driver(b, env_extra={"GORACE": "halt_on_error=0 exitcode=0"}, allow_rc=(0, 2))
    vlib.append_monitor_events(trace, vlib.race_reports(summ["stderr_path"]))
    ck.validate(MODULE, trace, sig=sig)
    ck.assumptions += ["UDP loopback keeps the order of datagrams written to one socket and queues the marker datagram (written by the harness after the last Close returned) behind everything written before it",
                       "timing clauses use wide slack: refresh completeness allows one missing round, TCP close detection is asserted only 600 ms (12 intervals) after the peer closed",
                       "data races are those the Go race detector reports for go-ipfix frames on the schedules actually run"]
    ck.finish(rule="UDP: a real exporter with a 1 s refresh interval, one application goroutine sending random templates/data (incl. unknown ids) for 3.3 s (quick) / 8.5 s x4 (thorough), 1-4 goroutines calling Close twice each at a random instant, marker datagram and 300 ms silence window; TCP: 50 ms check interval, peer close, sends before/after the interval; all under -race; "
                   "distinct = distinct application sends by hash",
              technique="TLA+ ExporterConc spec (TLC exhaustive interleavings + liveness) + TLC byte-level trace validation of peer-observed datagrams, send/close events and race-detector reports")

def replay(path):
    vlib.replay(PROP, MODULE, path)
