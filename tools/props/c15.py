"""C15 - information-element value codec: exact round trip and length accounting."""
import vlib

MODULE = "C15Trace"

def sig(ev):
    if ev.get("e") == "Codec":
        return "Codec:%s" % ev["f"]["type"]
    return "%s:%s" % (ev.get("e"), ev.get("f", {}).get("type", ""))

def run(ck):
    ck.tlc_mc("WireMC", "WireMC_thorough.cfg" if ck.thorough else "WireMC.cfg")
    b = ck.go_build("c15")
    trace, summ = ck.run_driver(b)
    ck.validate(MODULE, trace, sig=sig)
    ck.assumptions += ["abstract values are produced by the harness with plain shifts (gen.Elem / absv.ValueOf)",
                       "decode path driven in-process through the verif hook VerifDecodePacket"]
    ck.finish(rule="one Codec event per (element, value): exhaustive 8-bit/boolean, 16-bit exhaustive (thorough) or strided (quick), "
                   "boundary+random for wider types, every string/octet length around 255 and at 65530..65535; "
                   "distinct = distinct (element, value) pairs by hash; every case is non-trivial (a real encode+decode)",
              technique="TLA+ Wire spec (TLC exhaustive small scope) + TLC trace validation of recorded encode/decode events")

def replay(path):
    vlib.replay("C15", MODULE, path)
