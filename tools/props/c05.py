import vlib
MODULE = "AggTrace"
PROP = "C05"
RULE = 'random histories over 1-5 flows from a pool of IPv4/IPv6 5-tuples (neighbouring tuples differ in one component): records of inter-node (two reporting nodes), intra-node, to-external, denied and rejected flows with independent values per stats element, resets, scans and clock advances; after every call all aggregate/per-node/throughput/end fields of every flow are compared and the declarative invariant ArithmeticOK is evaluated; distinct = distinct histories by hash'

def sig(ev):
    return ev.get("e", "?")

def run(ck):
    if PROP == "C05":
        ck.tlc_mc("AggArithMC", "AggArithMC_thorough.cfg" if ck.thorough else "AggArithMC.cfg", timeout=3000)
        ck.tlc_mc("AggArithMC", "AggArithMC_single.cfg")
        args = ["-mode", "c05"]
    else:
        ck.tlc_mc("AggExpiryMC", "AggExpiryMC.cfg")
        sched, info = ck.schedules_from_graph("AggExpiryMC", "AggExpiryMC_graph2.cfg" if ck.thorough else "AggExpiryMC_graph.cfg", maxlen=40,
                                              maxwalks=60000 if ck.thorough else None)
        args = ["-mode", "c05", "-sched", sched]
    b = ck.go_build("cagg")
    trace, summ = ck.run_driver(b, args)
    ck.validate(MODULE, trace, sig=sig)
    if PROP == "C05":
        # counters beyond TLC's integers: limb arithmetic (BigArith.tla) on single-stream flows
        ck.tlc_mc("BigArithMC", "BigArithMC.cfg", workers=2)
        tb, sb = ck.run_driver(b, ["-mode", "c05big"], name="big")
        ck.validate("C05BigTrace", tb, sig=lambda ev: "Big:" + ev.get("e", "?"))
    ck.assumptions += ["virtual time: the verif hook shifts every queued deadline by whole units of 1 h (timeouts 2 and 3 units); real elapsed test time is negligible against the unit and strictly positive, so every After/Before comparison of the code equals the integer comparison of the model; a deadline exactly equal to the scan instant cannot be produced",
                       "counters stay below 2^27 in the full-state runs (TLC integers are 32-bit); octet counters between 2^40 and 2^60 are covered on single-stream flows by limb arithmetic (C05BigTrace); uint64 wrap-around is not covered",
                       "records obey the exporter contract in C05 runs (per node increasing end times, non-decreasing totals, end > start); C07 runs add stale records, which the model covers by its stale-record path"]
    ck.finish(rule=RULE, technique="TLA+ Aggregation spec (TLC exhaustive) + graph replay / random histories on the real AggregationProcess under virtual time + TLC trace validation of full state projections")

def replay(path):
    vlib.replay(PROP, "C05BigTrace" if "C05BigTrace" in path else MODULE, path)
