import vlib
MODULE = "ExporterTrace"
PROP = "C08"
RULE = 'sessions of successful template/data sends with record counts 0..2000, starting at 0, near 2^31 and near 2^32 (counter placed by the verif hook); distinct = distinct sends by hash; plus one 1.5 s UDP session with 400 templates whose refresh burst overlaps application sends (C14 trace spec)'

def sig(ev):
    if ev.get("e") != "Send":
        return ev.get("e", "?")
    s = ev.get("set", {})
    return "Send:%s:%s" % (s.get("stype"), "err" if ev.get("err") else "ok")

def run(ck):
    ck.tlc_mc("WireMC", "WireMC.cfg")
    ck.tlc_mc("ExporterMC", "ExporterMC_thorough.cfg" if ck.thorough else "ExporterMC.cfg")
    b = ck.go_build("cexp")
    trace, summ = ck.run_driver(b, ["-mode", "c08"])
    ck.validate(MODULE, trace, sig=sig)
    # the same statement for the messages the exporter writes on its own (UDP template refresh), interleaved
    # with the application's: one short refresh session of the C14 driver, validated byte for byte
    b14 = ck.go_build("c14", race=True)
    t14, s14 = ck.run_driver(b14, ["-scen", "refresh"], env_extra={"GORACE": "halt_on_error=0 exitcode=0"}, allow_rc=(0, 2), name="refresh")
    vlib.append_monitor_events(t14, vlib.race_reports(s14["stderr_path"]))
    ck.validate("C14Trace", t14, sig=lambda ev: "Refresh:" + ev.get("e", "?"))
    ck.assumptions += ["the peer socket is owned by the harness; over TCP exactly the reported byte count is read after each successful send, over UDP one datagram; stray bytes would misalign the next read or show up in the final Quiesce read",
                       "UDP messages are kept below 60000 bytes (loopback datagram limit); the 65535 boundary is exercised over TCP",
                       "enterprise numbers below 2^31 (TLC integers)"]
    ck.finish(rule=RULE, technique="TLA+ Exporter/Wire specs (TLC exhaustive small scope) + TLC byte-level trace validation of a real exporter against a raw peer socket")

def replay(path):
    vlib.replay(PROP, "C14Trace" if "C14Trace" in path else MODULE, path)
