"""C18 - encrypted transports authenticate the peer and never fall back to plaintext."""
import vlib
MODULE = "C18Trace"
PROP = "C18"

def sig(ev):
    c = ev.get("cell", {})
    return "Cell:%s:%s:%s:%s:%s%s" % (c.get("side"), c.get("proto"), c.get("srvCert"), c.get("valid"), c.get("cliCert"), ":hist" if ev.get("srv", -1) >= 0 else "")

def run(ck):
    ck.tlc_mc("TransportMC", "TransportMC.cfg", workers=4)
    ck.tlc_mc("TransportHistMC", "TransportHistMC.cfg", workers=4)
    ck.tlaps("TransportProof")   # the policy theorems for every cell and every validity period (TLAPS)
    b = ck.go_build("c18")
    trace, summ = ck.run_driver(b, timeout=900)
    ck.validate(MODULE, trace, sig=sig)
    ck.assumptions += ["certificates (two CAs; trusted / other CA / self-signed / expired / not yet valid / wrong SAN / no SAN server certificates; trusted / other CA / expired client certificates) are minted per run",
                       "the TLS / DTLS handshakes are crypto/tls and pion/dtls; what is decided is whether go-ipfix configures and uses them so that the policy of Transport.tla holds",
                       "DTLS without ServerName: the policy is permissive (chain and validity only), as the property's DTLS sentence does not repeat the name clause; DTLS client authentication is not claimed (the library does not support it)",
                       "the negotiated TLS version of an established exporter session is bounded by the harness peer's maximum version, which is what the cell records"]
    ck.finish(rule="one real handshake per cell: exporter side {tls, dtls} x 7 server certificates x {ServerName matching, unset, mismatching} x peer max version {1.1, 1.2, 1.3} (tls); collector side {client CA set, unset} x {no, trusted, other-CA, expired client certificate} x client max version; plaintext peers against encrypted exporter / collector endpoints (tls and dtls); quick omits some DTLS cells with ServerName unset; "
                   "distinct = cells", exhaustive=ck.thorough,
              technique="TLA+ Transport policy spec (TLC over the whole configuration matrix) + one real handshake per cell + TLC validation of each observed outcome against the policy")

def replay(path):
    vlib.replay(PROP, MODULE, path)
