import vlib
MODULE = "AggTrace"
PROP = "C06"
RULE = "engine A: every edge of TLC's state graph of AggExpiryMC (1 key, now<=6 in quick; 2 keys, now<=3 in thorough): {record of kind intra/src/dst/deny, advance, scan with every failing-key subset}; engine B: random histories over up to 5 keys with failing callbacks; after every call the flow map, the heap array (index fields, heap order, back pointers), GetNumFlows and GetExpiry are compared; distinct = distinct schedules by hash"

def sig(ev):
    return ev.get("e", "?")

def run(ck):
    if PROP == "C05":
        ck.tlc_mc("AggArithMC", "AggArithMC_thorough.cfg" if ck.thorough else "AggArithMC.cfg", timeout=3000)
        ck.tlc_mc("AggArithMC", "AggArithMC_single.cfg")
        args = ["-mode", "c05"]
    else:
        ck.tlc_mc("AggExpiryMC", "AggExpiryMC.cfg")
        sched, info = ck.schedules_from_graph("AggExpiryMC", "AggExpiryMC_graph2.cfg" if ck.thorough else "AggExpiryMC_graph.cfg", maxlen=40,
                                              maxwalks=60000 if ck.thorough else None)
        args = ["-mode", "c06", "-sched", sched]
    b = ck.go_build("cagg")
    trace, summ = ck.run_driver(b, args)
    ck.validate(MODULE, trace, sig=sig)
    if PROP == "C06":
        # hundreds of flows due in one scan (AggMany.tla)
        tm, sm = ck.run_driver(b, ["-mode", "c06many"], name="many")
        ck.validate("AggManyTrace", tm, sig=lambda ev: "Many:" + ev.get("e", "?"), label="AggManyTrace")
    if PROP != "C05":
        # timeouts of 20 and 30 units: scans one or two units (a small fraction of a timeout) before and after a deadline
        tw, sw = ck.run_driver(b, ["-mode", "c06", "-wide"], name="wide")
        ck.validate(MODULE, tw, cfg="AggTrace_wide.cfg", sig=sig, label="AggTrace_wide")
    ck.assumptions += ["virtual time: the verif hook shifts every queued deadline by whole units of 1 h (timeouts 2 and 3 units); real elapsed test time is negligible against the unit and strictly positive, so every After/Before comparison of the code equals the integer comparison of the model; a deadline exactly equal to the scan instant cannot be produced",
                       "counters stay below 2^27 (TLC integers are 32-bit): uint64 wrap-around is not covered",
                       "records obey the exporter contract in C05 runs (per node increasing end times, non-decreasing totals, end > start); C07 runs add stale records, which the model covers by its stale-record path"]
    ck.finish(rule=RULE, technique="TLA+ Aggregation spec (TLC exhaustive) + graph replay / random histories on the real AggregationProcess under virtual time + TLC trace validation of full state projections")

def replay(path):
    if "AggManyTrace" in path:
        return vlib.replay(PROP, "AggManyTrace", path)
    vlib.replay(PROP, MODULE, path, cfg="AggTrace_wide.cfg" if "AggTrace_wide" in path else None)
