#!/bin/bash
# usage: tools/roundx.sh Cxx <round letter> <name for m1> <name for m2>  -- confirm the two changes of a round and evaluate them
P=$1; L=$2
for pair in "m1 $3" "m2 $4"; do set -- $pair
  python3 /verif/tools/seedconfirm.py $P $1 /tmp/seed/out/${P}${L} $2 2>&1 | grep -v WARNING | tail -1 | cut -c1-400
  if [ -f /verif/seeded/$P-$2/patch.diff ]; then /verif/tools/seedeval.sh $P /verif/seeded/$P-$2/patch.diff quick 2>&1 | grep -v WARNING | head -3 | cut -c1-300; else echo "NOT CONFIRMED $P $1"; fi
done
