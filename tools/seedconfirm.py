#!/usr/bin/env python3
"""Confirm a seeded change produced by a sub-agent and, if confirmed, store it under /verif/seeded/<id>/.
usage: seedconfirm.py <Cxx> <mN> <outdir-of-agent> [<name to store under, default mN>]
Confirms in a fresh scratch worktree: demo passes without the patch, fails with it; the existing tests of the
affected packages pass with the patch."""
import json, os, re, shutil, subprocess, sys, tempfile
prop, m, src = sys.argv[1:4]
store = sys.argv[4] if len(sys.argv) > 4 else m
meta = json.load(open(os.path.join(src, m + ".meta.json")))
patch = os.path.join(src, m + ".patch.diff")
demo = os.path.join(src, m + "_demo_test.go")
W = tempfile.mkdtemp(prefix="seedconfirm.")
wt = os.path.join(W, "repo")
env = dict(os.environ, GOFLAGS="-mod=mod", GOPROXY="off", GOSUMDB="off")
def sh(cmd, **kw):
    return subprocess.run(cmd, shell=True, cwd=wt, env=env, stdout=subprocess.PIPE, stderr=subprocess.STDOUT, text=True, **kw)
subprocess.run(["git", "-C", "/repo", "worktree", "add", "-q", "--detach", wt, "HEAD"], check=True)
try:
    cmd = meta["demo_cmd"]
    mm = re.search(r"cp \S+ (\S+_test\.go)", cmd)
    dest = mm.group(1) if mm else None
    if dest:
        k = re.search(r"((?:pkg|cmd)/.*)$", dest)
        dest = k.group(1) if k else None
    gm = re.search(r"(go test .*)$", cmd)
    gotest = gm.group(1)
    if not dest:
        first = open(demo).read(400)
        pk = re.search(r"(pkg/[\w/]+|cmd/[\w/]+)", first).group(1)
        dest = pk.rstrip("/") + "/seed_demo_test.go"
    shutil.copy(demo, os.path.join(wt, dest))
    r0 = sh("timeout 600 " + gotest)
    ok0 = r0.returncode == 0
    a = sh("git apply " + patch)
    if a.returncode != 0:
        print("PATCH DOES NOT APPLY", a.stdout); sys.exit(3)
    b = sh("go build ./... ")
    r1 = sh("timeout 600 " + gotest)
    fail1 = r1.returncode != 0
    os.remove(os.path.join(wt, dest))
    pkgs = sorted({"./" + os.path.dirname(f) + "/" for f in meta["files_changed"]})
    tests = []
    allok = b.returncode == 0
    for p in pkgs:
        run = ""
        if "collector" in p and "cmd" not in p:
            run = "-run 'TestCollectingProcess|TestTCPCollecting|TestUDPCollecting|TestFakeAfterFunc|TestUnknownInformationElement'"
        t = sh("timeout 900 go test -vet=off -count=1 %s %s" % (run, p))
        fails = re.findall(r"--- FAIL: (\S+)", t.stdout)
        fails = [f for f in fails if f not in ("TestExportingProcessWithTLS", "TestExportingProcessWithDTLS", "TestInitKafkaProducerWithTLS")]
        tests.append(dict(pkg=p, failing=fails))
        allok = allok and not fails
    print(json.dumps(dict(prop=prop, m=m, demo_passes_without=ok0, demo_fails_with=fail1, builds=b.returncode == 0, existing_tests=tests)))
    if ok0 and fail1 and allok:
        d = os.path.join("/verif/seeded", "%s-%s" % (prop, store))
        os.makedirs(d, exist_ok=True)
        shutil.copy(patch, os.path.join(d, "patch.diff"))
        shutil.copy(demo, os.path.join(d, "demo_test.go"))
        meta2 = dict(property=prop, summary=meta.get("summary"), needs=meta.get("needs"), files_changed=meta.get("files_changed"),
                     demo_file=dest, demo_cmd=gotest,
                     confirmed=dict(demo_passes_without_patch=True, demo_fails_with_patch=True, existing_tests_pass_with_patch=True,
                                    how="tools/seedconfirm.py in a fresh scratch worktree of /repo HEAD"))
        json.dump(meta2, open(os.path.join(d, "meta.json"), "w"), indent=1)
        print("STORED", d)
    else:
        print("NOT CONFIRMED"); print(r0.stdout[-1500:] if not ok0 else ""); print(r1.stdout[-500:] if not fail1 else "")
finally:
    subprocess.run(["git", "-C", "/repo", "worktree", "remove", "--force", wt])
    shutil.rmtree(W, ignore_errors=True)
