#!/usr/bin/env python3
"""Binding self-test: for each trace specification, record a trace of the unchanged code, check that TLC
accepts it, then corrupt ONE logged field (or drop one event) and require TLC to reject the trace at that
very event.  A corruption that is accepted means the trace spec does not bind that field: the test fails.

usage: tools/selftest.py [Cxx ...]      writes selftest/report.json
"""
import copy, json, os, random, subprocess, sys, tempfile
sys.path.insert(0, os.path.dirname(os.path.abspath(__file__)))
import vlib

def bump(v):
    if isinstance(v, bool):
        return not v
    if isinstance(v, int):
        return v + 1
    if isinstance(v, str):
        return v + "x"
    if isinstance(v, list):
        if not v:
            return [1]
        w = list(v); w[-1] = bump(w[-1]); return w
    if isinstance(v, dict):
        w = dict(v)
        for k in sorted(w):
            if isinstance(w[k], (int, bool)):
                w[k] = bump(w[k]); return w
        k = sorted(w)[0]; w[k] = bump(w[k]); return w
    raise ValueError(v)

def setpath(ev, path, fn):
    cur = ev
    for k in path[:-1]:
        cur = cur[k]
    cur[path[-1]] = fn(cur[path[-1]])

# property -> (trace module, driver, driver args, needs registry, race, [(event name, path to corrupt)], env)
T = {
 "C15": ("C15Trace", "c15", [], False, False, [("Codec", ["dec"]), ("Codec", ["reported"]), ("Codec", ["buf"])]),
 "C16": ("C16Trace", "c16", [], False, False, [("Add", ["newbuf"]), ("Add", ["setlen"]), ("Serialize", ["msg"]), ("ResetSet", ["setlen"])]),
 "C02": ("ExporterTrace", "cexp", ["-mode", "c02"], False, False, [("Send", ["wire"]), ("Send", ["ret"])]),
 "C08": ("ExporterTrace", "cexp", ["-mode", "c08"], False, False, [("Send", ["wire"]), ("NewTid", ["id"])]),
 "C09": ("ExporterTrace", "cexp", ["-mode", "c09"], False, False, [("Send", ["err"]), ("Quiesce", ["extra"])]),
 "C03": ("CollectorTrace", "ccoll", ["-mode", "c03"], True, False, [("Recv", ["kind"]), ("Recv", ["nmsg"])]),
 "C04": ("CollectorTrace", "ccoll", ["-mode", "c04"], True, False, [("Recv", ["kind"]), ("Recv", ["store"])]),
 "C17": ("CollectorTrace", "ccoll", ["-mode", "c17"], True, False, [("Recv", ["kind"])]),
 "C10": ("TemplateLifeTrace", "c10", [], False, False, [("Template", ["store"]), ("Fire", ["inflight"]), ("CbRun", ["timers"]), ("Data", ["accepted"])]),
 "C11": ("FramingTrace", "c11", [], True, False, [("Deliver", ["seq"]), ("Seg", ["chunk"]), ("Recheck", ["same"])]),
 "C05": ("AggTrace", "cagg", ["-mode", "c05"], False, False, [("Ingest", ["flows", 0, "com"]), ("ResetStats", ["flows", 0, "tp"]), ("Ingest", ["numflows"])]),
 "C06": ("AggTrace", "cagg", ["-mode", "c06"], False, False, [("Scan", ["calls"]), ("Advance", ["expiry"]), ("Scan", ["err"])]),
 "C07": ("AggTrace", "cagg", ["-mode", "c07"], False, False, [("Ingest", ["flows", 0, "ready"])]),
 "C01": ("PipelineTrace", "c01", [], False, False, [("CDeliver", ["m", "seq"]), ("CDeliver", ["m", "kind"])]),
 "C12": ("C12Trace", "c12", [], False, True, [("Deliver", ["i"]), ("ConnZero", ["ok"]), ("AfterStop", ["leaked"])]),
 "C14": ("C14Trace", "c14", [], False, True, [("Recv", ["bytes"]), ("End", ["leaked"])]),
 "C18": ("C18Trace", "c18", [], False, False, [("Cell", ["obs", "established"])]),
 "C19": ("C19Trace", "c19", [], False, False, [("Out", ["value"]), ("Out", ["topic"]), ("Out", ["consok"])]),
 "C05BIG": ("C05BigTrace", "cagg", ["-mode", "c05big"], False, False, [("Big", ["tp", 0]), ("Big", ["com", 1]), ("Big", ["end"])]),
}

def main():
    props = sys.argv[1:] or sorted(T)
    report = {}
    bad = 0
    for prop in props:
        module, drv, args, needreg, race, muts = T[prop]
        ck = vlib.Check(prop + "-selftest", "quick", 1)
        b = ck.go_build(drv, race=race)
        env = {"GORACE": "halt_on_error=0 exitcode=0"} if race else None
        if needreg:
            reg = os.path.join(ck.tmp, "registry.json")
            args = args + ["-reg", reg]
        trace, summ = ck.run_driver(b, args, env_extra=env, allow_rc=(0, 2))
        envx = {"REGISTRY": os.path.join(ck.tmp, "registry.json")} if needreg else None
        lines = open(trace).read().splitlines()
        # keep the self-test cheap: the first 3000 lines (cut at a trace boundary)
        if len(lines) > 3000:
            cut = 3000
            while cut < len(lines) and '"e":"Reset"' not in lines[cut]:
                cut += 1
            lines = lines[:cut]
        base = os.path.join(ck.tmp, "base.ndjson")
        open(base, "w").write("\n".join(lines) + "\n")
        verdict, n, _ = ck._tlc_trace(module, base, env_extra=envx)
        res = {"baseline": verdict, "events": len(lines), "corruptions": []}
        if verdict != "accepted":
            bad += 1
        rnd = random.Random(7)
        for (evname, path) in muts:
            idxs = [i for i, l in enumerate(lines) if ('"e":"%s"' % evname) in l]
            if not idxs:
                res["corruptions"].append({"event": evname, "field": path, "result": "no such event in the sample"})
                continue
            i = idxs[0] if (prop, evname) == ("C11", "Seg") else idxs[len(idxs) // 2]   # the first stream is a valid one, consumed to its last byte
            ev = json.loads(lines[i])
            try:
                setpath(ev, path, bump)
            except (KeyError, IndexError, ValueError) as e:
                res["corruptions"].append({"event": evname, "field": path, "result": "field absent (%s)" % e})
                continue
            mut = list(lines); mut[i] = json.dumps(ev)
            mp = os.path.join(ck.tmp, "mut.ndjson")
            open(mp, "w").write("\n".join(mut) + "\n")
            v2, n2, _ = ck._tlc_trace(module, mp, env_extra=envx)
            # an observation is rejected at its own event; a corrupted INPUT (Seg) surfaces at the next observation
            ok = v2 == "rejected" and (n2 in (i + 1, i + 2) or (evname == "Seg" and n2 > i))
            res["corruptions"].append({"event": evname, "field": path, "line": i + 1, "verdict": v2, "at": n2, "binds": ok})
            if not ok:
                bad += 1
            print("%s %s.%s: %s at %s (line %d) %s" % (prop, evname, ".".join(map(str, path)), v2, n2, i + 1, "OK" if ok else "NOT BOUND"))
        # dropping an event must be noticed as well
        report[prop] = res
    os.makedirs(os.path.join(vlib.ROOT, "selftest"), exist_ok=True)
    json.dump(report, open(os.path.join(vlib.ROOT, "selftest", "report.json"), "w"), indent=1)
    print("selftest: %d problems" % bad)
    sys.exit(1 if bad else 0)

main()
