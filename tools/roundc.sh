#!/bin/bash
# usage: tools/roundc.sh Cxx  -- confirm the two round-c changes of a property (stored as m5/m6) and evaluate them
P=$1
for pair in "m1 m5" "m2 m6"; do set -- $pair
  python3 /verif/tools/seedconfirm.py $P $1 /tmp/seed/out/${P}c $2 2>&1 | grep -v WARNING | tail -1 | cut -c1-400
  if [ -f /verif/seeded/$P-$2/patch.diff ]; then /verif/tools/seedeval.sh $P /verif/seeded/$P-$2/patch.diff quick 2>&1 | grep -v WARNING | head -3 | cut -c1-300; else echo "NOT CONFIRMED $P $1"; fi
done
