#!/bin/bash
# usage: tools/sweep.sh "<seeds>" [parallel]  -- every quick check with every seed, several at a time (load = part of the test);
# prints one line per non-zero exit.  Evidence files are restored afterwards (git checkout evidence) by the caller if wanted.
cd /verif
SEEDS=${1:-"2 3"}; P=${2:-4}
OUT=$(mktemp -d /tmp/sweep.XXXXXX)
for s in $SEEDS; do
  ls tools/props | sed -n 's/^c\([0-9][0-9]\)\.py$/C\1/p' | xargs -P "$P" -I{} sh -c "VERIF_SEED=$s ./check {} --tier quick > $OUT/{}-$s.out 2>&1; echo \"{} seed=$s rc=\$?\" >> $OUT/rc.txt"
done
sort $OUT/rc.txt | grep -v "rc=0" || echo "sweep clean: $(wc -l < $OUT/rc.txt) runs"
for f in $(grep -L "^OK" $OUT/*.out 2>/dev/null); do echo "--- $f"; grep -v WARNING $f | tail -6 | cut -c1-400; done
echo "outputs in $OUT"
