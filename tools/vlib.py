"""Shared machinery of every /verif check.

A check = (1) exhaustive TLC run(s) of the property's specification (design level),
          (2) a Go driver built against /repo's working tree (-tags verif) that records NDJSON traces
              of the real code (engine B) or replays TLC-generated schedules through it (engine A),
          (3) TLC trace validation of those traces against the trace specification.
Verdict: VIOLATION only when a trace recorded from the real code is rejected by TLC (and the rejection
is not a listed known finding). Everything else that goes wrong is a machinery error: exit 2.
"""
import json, os, re, shutil, subprocess, sys, tempfile, time, atexit, hashlib

ROOT = os.path.dirname(os.path.dirname(os.path.abspath(__file__)))
SPEC = os.path.join(ROOT, "spec")
HARNESS = os.path.join(ROOT, "harness")
NCPU = os.cpu_count() or 4

GOENV = dict(GOFLAGS="-mod=mod", GOPROXY="off", GOSUMDB="off", GOTOOLCHAIN="local")


class Machinery(Exception):
    pass


def log(*a):
    print("[verif]", *a, file=sys.stderr, flush=True)


class Check:
    def __init__(self, prop, tier, seed):
        self.prop, self.tier, self.seed = prop, tier, seed
        self.t0 = time.time()
        self.tmp = tempfile.mkdtemp(prefix="verif-%s-" % prop)
        atexit.register(lambda: shutil.rmtree(self.tmp, ignore_errors=True))
        self.specdir = os.path.join(self.tmp, "spec")
        os.makedirs(self.specdir)
        for d in ("", "mc", "trace", "sim", "proofs"):
            p = os.path.join(SPEC, d)
            if os.path.isdir(p):
                for f in os.listdir(p):
                    if f.endswith((".tla", ".cfg")):
                        shutil.copy(os.path.join(p, f), self.specdir)
        self.mc = []            # exhaustive runs
        self.states = 0
        self.transitions = 0
        self.traces_ok = 0
        self.events_ok = 0
        self.evaluations = 0
        self.distinct = 0
        self.samples = []
        self.rejections = []    # dicts
        self.notes = []
        self.extra = {}
        self.assumptions = []
        self.thorough = tier == "thorough"

    # ------------------------------------------------------------------ TLC, exhaustive
    def tlc_mc(self, module, cfg=None, workers=None, timeout=1800, extra=(), jvm="", count=True, expect_violation=None):
        """Run an exhaustive (or simulation) TLC job. Returns dict with generated/distinct."""
        cfg = cfg or module + ".cfg"
        md = tempfile.mkdtemp(prefix="md-", dir=self.tmp)
        env = dict(os.environ)
        env["JAVA_TOOL_OPTIONS"] = (jvm + " -Xss256m").strip()
        cmd = ["timeout", str(timeout), "tlc", "-workers", str(workers or min(NCPU, 16)), "-metadir", md,
               "-config", cfg] + list(extra) + [module + ".tla"]
        t = time.time()
        p = subprocess.run(cmd, cwd=self.specdir, env=env, stdout=subprocess.PIPE, stderr=subprocess.STDOUT, text=True)
        out = p.stdout
        shutil.rmtree(md, ignore_errors=True)
        m = re.findall(r"(\d+) states generated, (\d+) distinct states found", out)
        res = dict(module=module, cfg=cfg, wall_s=round(time.time() - t, 1), rc=p.returncode)
        if m:
            res["generated"], res["distinct"] = int(m[-1][0]), int(m[-1][1])
        violated = re.findall(r"Error: (Invariant \S+ is violated|Action property \S+ is violated|Temporal properties were violated|Deadlock reached)", out)
        ok = ("Model checking completed. No error has been found." in out) and not violated
        if expect_violation:
            if not any(expect_violation in v for v in violated):
                raise Machinery("model %s/%s: expected violation of %s not found:\n%s" % (module, cfg, expect_violation, tail(out)))
            res["expected_violation"] = expect_violation
        elif not ok:
            if p.returncode == 124:
                raise Machinery("TLC timeout on %s/%s" % (module, cfg))
            raise Machinery("design-level model check failed for %s/%s (this is a machinery/spec error, not a verdict):\n%s" % (module, cfg, tail(out, 60)))
        if count and m:
            self.states += res["distinct"]
            self.transitions += res["generated"]
        self.mc.append(res)
        log("TLC %s/%s: %s generated, %s distinct, %.1fs" % (module, cfg, res.get("generated"), res.get("distinct"), res["wall_s"]))
        res["out"] = out
        return res

    def tlaps(self, module, timeout=900):
        """Check a TLAPS proof module (unbounded statement about a spec); failure is a machinery/spec error, not a verdict."""
        t = time.time()
        p = subprocess.run(["timeout", str(timeout), "tlapm", "--threads", str(min(NCPU, 8)), "--cleanfp", module + ".tla"],
                           cwd=self.specdir, stdout=subprocess.PIPE, stderr=subprocess.STDOUT, text=True)
        m = re.search(r"All (\d+) obligations? proved", p.stdout)
        if not m:
            raise Machinery("TLAPS proof %s not checked (rc=%s):\n%s" % (module, p.returncode, tail(p.stdout, 30)))
        res = dict(module=module, cfg="(tlapm)", obligations_proved=int(m.group(1)), wall_s=round(time.time() - t, 1), rc=0)
        self.mc.append(res)
        log("TLAPS %s: %s obligations proved, %.1fs" % (module, m.group(1), res["wall_s"]))
        return res

    def schedules_from_graph(self, module, cfg, maxlen=60, maxwalks=None, shuffle=True, skip="", timeout=900):
        """TLC -dump dot,actionlabels of an exhaustive config -> edge-covering action schedules (engine A)."""
        dot = os.path.join(self.tmp, "graph-%s.dot" % cfg.replace(".cfg", ""))
        res = self.tlc_mc(module, cfg, extra=["-dump", "dot,actionlabels", dot], timeout=timeout, count=False, workers=4)
        out = os.path.join(self.tmp, "sched-%s.jsonl" % cfg.replace(".cfg", ""))
        cmd = [sys.executable, os.path.join(ROOT, "tools", "graph2sched.py"), dot, out, "--maxlen", str(maxlen), "--seed", str(self.seed)]
        if maxwalks:
            cmd += ["--maxwalks", str(maxwalks)]
        if shuffle:
            cmd += ["--shuffle", "1"]
        if skip:
            cmd += ["--skip", skip]
        p = subprocess.run(cmd, stdout=subprocess.PIPE, stderr=subprocess.PIPE, text=True)
        if p.returncode != 0:
            raise Machinery("graph2sched failed: " + p.stderr[-2000:])
        info = json.loads(p.stdout.strip().splitlines()[-1])
        os.remove(dot)
        info.update(graph_states=res.get("distinct"), cfg=cfg)
        self.extra.setdefault("graph_replay", []).append(info)
        log("graph %s/%s: %s" % (module, cfg, info))
        return out, info

    # ------------------------------------------------------------------ Go
    def go_build(self, cmd, race=False, tags="verif", patches=None):
        """patches: [(path relative to the repo, [(old, new), ...], text to append)] -- a source-level override of
        constants no hook reaches, applied to a COPY of the working tree's file and passed with go's -overlay
        (nothing is written to the repository; a pattern that no longer matches is a machinery error)."""
        out = os.path.join(self.tmp, "bin-" + cmd.replace("/", "_") + ("-race" if race else ""))
        env = dict(os.environ)
        env.update(GOENV)
        sums = os.path.join(HARNESS, "go.sum")
        try:
            shutil.copy("/repo/go.sum", sums)
        except Exception:
            pass
        args = ["go", "build", "-tags", tags, "-o", out]
        repo = os.environ.get("VERIF_REPO", "/repo")
        if repo != "/repo":
            # evaluate another checkout (e.g. a scratch worktree with a seeded change) without touching /repo
            mf = os.path.join(self.tmp, "alt.mod")
            with open(mf, "w") as f:
                f.write(open(os.path.join(HARNESS, "go.mod")).read().replace("=> /repo", "=> " + repo))
            shutil.copy(os.path.join(repo, "go.sum"), os.path.join(self.tmp, "alt.sum"))
            args += ["-modfile", mf]
        if patches:
            rep = {}
            for rel, subs, extra in patches:
                src = open(os.path.join(repo, rel)).read()
                for old, new in subs:
                    if old not in src:
                        raise Machinery("overlay patch for %s: pattern %r not found in the working tree" % (rel, old))
                    src = src.replace(old, new)
                dst = os.path.join(self.tmp, "overlay-" + rel.replace("/", "_"))
                with open(dst, "w") as f:
                    f.write(src + "\n" + (extra or ""))
                rep[os.path.join(repo, rel)] = dst
            ov = os.path.join(self.tmp, "overlay-%s.json" % cmd)
            json.dump({"Replace": rep}, open(ov, "w"))
            args += ["-overlay", ov]
        if race:
            args.append("-race")
        args.append("./cmd/" + cmd)
        t = time.time()
        p = subprocess.run(args, cwd=HARNESS, env=env, stdout=subprocess.PIPE, stderr=subprocess.STDOUT, text=True)
        if p.returncode != 0:
            raise Machinery("go build %s failed (does /repo compile with -tags %s?):\n%s" % (cmd, tags, tail(p.stdout, 40)))
        log("built %s in %.1fs" % (cmd, time.time() - t))
        return out

    def run_driver(self, binary, args=(), timeout=1200, env_extra=None, name="trace", allow_rc=(0,)):
        """Run a driver; it writes the trace to -out and prints 'SUMMARY {json}' last."""
        trace = os.path.join(self.tmp, name + ".ndjson")
        env = dict(os.environ)
        env.update(env_extra or {})
        cmd = ["timeout", str(timeout), binary, "-out", trace, "-seed", str(self.seed), "-tier", self.tier] + list(args)
        errp = os.path.join(self.tmp, name + ".stderr")
        t = time.time()
        with open(errp, "w") as ef:
            p = subprocess.run(cmd, cwd=self.tmp, env=env, stdout=subprocess.PIPE, stderr=ef, text=True)
        summ = None
        for line in p.stdout.splitlines():
            if line.startswith("SUMMARY "):
                summ = json.loads(line[8:])
        if summ is None and os.path.exists(trace) and os.path.getsize(trace) > 0:
            # the driver died: if the code under test crashed it (panic / fatal error with go-ipfix frames on the
            # stack), that is behaviour of the real code: it becomes a Crash event at the end of the recorded trace
            err = open(errp, errors="replace").read()
            m = re.search(r"^(panic: .*|fatal error: .*)$", err, flags=re.M)
            if m and "github.com/vmware/go-ipfix/pkg/" in err[m.start():m.start() + 6000]:
                append_monitor_events(trace, [{"e": "Crash", "detail": m.group(1)[:200]}])
                n = sum(1 for _ in open(trace))
                summ = {"events": n, "traces": 0, "evaluations": n, "distinct_nontrivial": 0, "crashed": True}
                log("driver crashed inside go-ipfix: " + m.group(1)[:160])
        if summ is None or (p.returncode not in allow_rc and not summ.get("crashed")):
            err = open(errp).read()
            raise Machinery("driver %s died (rc=%s) without a summary:\n%s\n%s" % (os.path.basename(binary), p.returncode, tail(p.stdout, 10), tail(err, 40)))
        summ["stderr_path"] = errp
        summ["wall_s"] = round(time.time() - t, 1)
        self.evaluations += summ.get("evaluations", 0)
        self.distinct += summ.get("distinct_nontrivial", 0)
        log("driver %s: %s" % (os.path.basename(binary), {k: v for k, v in summ.items() if k not in ("stderr_path", "extra")}))
        return trace, summ

    # ------------------------------------------------------------------ TLC, trace validation
    def _tlc_trace(self, module, trace, cfg=None, timeout=3600, jvm="", env_extra=None):
        cfg = cfg or module + ".cfg"
        md = tempfile.mkdtemp(prefix="md-", dir=self.tmp)
        env = dict(os.environ)
        env.update(env_extra or {})
        env["TRACE"] = trace
        env["JAVA_TOOL_OPTIONS"] = (jvm + " -Xss512m").strip()
        cmd = ["timeout", str(timeout), "tlc", "-workers", "1", "-metadir", md, "-config", cfg, module + ".tla"]
        p = subprocess.run(cmd, cwd=self.specdir, env=env, stdout=subprocess.PIPE, stderr=subprocess.STDOUT, text=True)
        shutil.rmtree(md, ignore_errors=True)
        for f in os.listdir(self.specdir):
            if "_TTrace_" in f:
                os.remove(os.path.join(self.specdir, f))
        out = p.stdout
        m = re.search(r'<<"TRACE_ACCEPTED", (\d+)>>', out)
        if m:
            return ("accepted", int(m.group(1)), out)
        m = re.search(r'<<"TRACE_REJECTED_AT", (\d+)>>', out)
        if m:
            return ("rejected", int(m.group(1)), out)
        # An invariant of the trace spec violated: the state number of the violation tells the line
        m = re.search(r"Error: Invariant (\S+) is violated", out)
        if m:
            states = re.findall(r"^State (\d+):", out, flags=re.M)
            if states:
                return ("rejected", int(states[-1]), out)   # state k = after consuming line k-1 => failing line k-1 ... handled by caller
        raise Machinery("trace validation of %s did not produce a verdict (rc=%s):\n%s" % (module, p.returncode, tail(out, 60)))

    def validate(self, module, trace, cfg=None, sig=None, max_rej=6, timeout=3600, sample=3, env_extra=None, inv_offset=1, label=None):
        """Validate a (multi-)trace file. Records accepted trace count and rejections."""
        lines = open(trace).read().splitlines()
        if not lines:
            raise Machinery("empty trace from driver for %s" % module)
        cur = lines
        t = time.time()
        nrej = 0
        while True:
            path = os.path.join(self.tmp, "val-%d.ndjson" % nrej)
            with open(path, "w") as f:
                f.write("\n".join(cur) + "\n")
            verdict, n, out = self._tlc_trace(module, path, cfg, timeout, env_extra=env_extra)
            if verdict == "accepted":
                break
            if "Invariant" in out and "TRACE_REJECTED_AT" not in out:
                n = n - inv_offset
            if n < 1 or n > len(cur):
                raise Machinery("rejection line %d outside trace (%d lines)" % (n, len(cur)))
            bad = json.loads(cur[n - 1])
            trid = bad.get("tr")
            tl = [x for x in cur if json.loads(x).get("tr") == trid] if len(cur) < 400000 else None
            if tl is None:
                tl = [x for x in cur if ('"tr":%s,' % trid) in x or ('"tr":%s}' % trid) in x]
            idx = tl.index(cur[n - 1]) + 1
            os.makedirs(os.path.join(ROOT, "replays"), exist_ok=True)
            rp = os.path.join(ROOT, "replays", "%s-seed%d-%s-tr%s.ndjson" % (self.prop, self.seed, label or module, trid))
            with open(rp, "w") as f:
                f.write("\n".join(tl) + "\n")
            s = sig(bad) if sig else bad.get("e", "?")
            inv = re.search(r"Error: Invariant (\S+) is violated", out)
            self.rejections.append(dict(module=module, trace_id=trid, line_in_trace=idx, event=abbrev(bad), signature=s,
                                        replay=rp, invariant=inv.group(1) if inv else None))
            log("REJECTED %s trace %s at its line %d: %s  [sig %s]" % (module, trid, idx, abbrev(bad, 200), s))
            nrej += 1
            cur = [x for x in cur if x not in set(tl)] if len(tl) < 50 else _drop(cur, trid)
            if nrej >= max_rej or not cur:
                break
        ntr = len({json.loads(x).get("tr") for x in cur}) if len(cur) < 200000 else _count_tr(cur)
        if verdict == "accepted":
            self.traces_ok += ntr
            self.events_ok += len(cur)
        if sample and cur:
            step = max(1, len(cur) // sample)
            for i in range(0, len(cur), step)[:sample]:
                self.samples.append(abbrev(json.loads(cur[i]), 600))
        log("validated %s: %d traces / %d events accepted, %d rejected, %.1fs" % (module, ntr if verdict == "accepted" else 0, len(cur) if verdict == "accepted" else 0, nrej, time.time() - t))
        return nrej == 0

    # ------------------------------------------------------------------ verdict + evidence
    def finish(self, level="model_checking", rule="", technique="", exhaustive=False):
        kf = load_known()
        viol = []
        known = []
        for r in self.rejections:
            hit = [k for k in kf if k.get("property") == self.prop and k.get("status", "open") == "open" and k.get("signature") == r["signature"]]
            (known if hit else viol).append((r, hit[0] if hit else None))
        for r, k in known:
            print("KNOWN-FINDING: property=%s %s" % (self.prop, k["what"]))
        for r, _ in viol:
            print("VIOLATION property=%s replay=%s" % (self.prop, r["replay"]))
            print("  rejected by %s at event %d of trace %s: %s" % (r["module"], r["line_in_trace"], r["trace_id"], json.dumps(r["event"])[:400]))
        cov = dict(states=max(self.states, 0), transitions=max(self.transitions, 0),
                   traces_validated_against_impl=self.traces_ok, events_validated=self.events_ok,
                   evaluations=self.evaluations, distinct_nontrivial=self.distinct,
                   rule=rule, samples=self.samples[:8] or ["(no sample)"], exhaustive=exhaustive,
                   model_runs=[{k: v for k, v in m.items() if k != "out"} for m in self.mc],
                   rejections=[dict(r[0], known=bool(r[1])) for r in known + viol], notes=self.notes)
        cov.update(self.extra)
        ev = dict(property_id=self.prop, tier=self.tier, seed=self.seed, level=level, coverage=cov,
                  assumptions=self.assumptions, wall_s=round(time.time() - self.t0, 1), violations=len(viol))
        # evidence describes /repo itself; a run against another checkout (VERIF_REPO, seeded-change evaluation) leaves it alone
        evdir = os.path.join(ROOT, "evidence") if os.environ.get("VERIF_REPO", "/repo") == "/repo" else self.tmp
        os.makedirs(evdir, exist_ok=True)
        with open(os.path.join(evdir, self.prop + ".json"), "w") as f:
            json.dump(ev, f, indent=1)
        if viol:
            sys.exit(1)
        print("OK property=%s tier=%s seed=%d states=%d traces_validated=%d events=%d wall=%.0fs" % (
            self.prop, self.tier, self.seed, self.states, self.traces_ok, self.events_ok, time.time() - self.t0))
        sys.exit(0)


def race_reports(stderr_path, limit=5):
    """Data-race / fatal-error reports of a -race child that involve go-ipfix frames."""
    txt = open(stderr_path, errors="replace").read()
    evs = []
    for blk in re.split(r"={18}\n", txt):
        if "WARNING: DATA RACE" in blk and "github.com/vmware/go-ipfix/pkg/" in blk:
            funcs = sorted(set(re.findall(r"go-ipfix/pkg/([\w/]+\.\(?\*?\w+\)?\.\w+)", blk)))[:4]
            evs.append({"e": "Race", "funcs": funcs})
    m = re.search(r"fatal error: ([\w ]+)", txt)
    if m:
        evs.append({"e": "Crash", "detail": m.group(1)})
    m = re.search(r"^panic: (.*)$", txt, flags=re.M)
    if m:
        evs.append({"e": "Crash", "detail": m.group(1)[:200]})
    return evs[:limit]


def append_monitor_events(trace, evs):
    """Monitor events are appended to the last trace of the file: no specification has an action for them."""
    if not evs:
        return
    lines = open(trace).read().splitlines()
    tr = json.loads(lines[-1]).get("tr", 1) if lines else 1
    with open(trace, "a") as f:
        for e in evs:
            e = dict(e, tr=tr)
            f.write(json.dumps(e) + "\n")


def _drop(cur, trid):
    a, b = '"tr":%s,' % trid, '"tr":%s}' % trid
    return [x for x in cur if a not in x and b not in x]


def _count_tr(cur):
    s = set()
    for x in cur:
        m = re.search(r'"tr":(\d+)', x)
        if m:
            s.add(m.group(1))
    return len(s)


def tail(s, n=30):
    ls = [x for x in s.splitlines() if not x.startswith(("Semantic processing", "Linting of", "Parsing file", "SANY finished", "Starting SANY"))]
    return "\n".join(ls[-n:])


def abbrev(ev, lim=300):
    """Shorten long arrays/strings of an event for display."""
    def ab(v):
        if isinstance(v, list):
            if len(v) > 24:
                return [ab(x) for x in v[:12]] + ["...(%d)" % len(v)]
            return [ab(x) for x in v]
        if isinstance(v, dict):
            return {k: ab(x) for k, x in v.items()}
        if isinstance(v, str) and len(v) > 160:
            return v[:160] + "..."
        return v
    if isinstance(ev, dict):
        return {k: ab(v) for k, v in ev.items()}
    return ev


def load_known():
    p = os.path.join(ROOT, "known_findings.json")
    if not os.path.exists(p):
        return []
    return json.load(open(p)).get("findings", [])


def replay(prop, module, path, cfg=None):
    """Re-validate a stored replay trace; prints the verdict."""
    ck = Check(prop, "quick", 0)
    verdict, n, out = ck._tlc_trace(module, os.path.abspath(path), cfg)
    print("replay %s: %s at line %d" % (path, verdict, n))
    if verdict == "rejected":
        lines = open(path).read().splitlines()
        print("  failing event:", lines[n - 1][:600] if 0 < n <= len(lines) else "?")
        print("VIOLATION property=%s replay=%s" % (prop, path))
        sys.exit(1)
    sys.exit(0)
