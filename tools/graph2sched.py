#!/usr/bin/env python3
"""TLC state graph (-dump dot,actionlabels) -> action schedules covering every edge.

usage: graph2sched.py graph.dot out.jsonl [--maxlen N] [--maxwalks N] [--seed S] [--skip ActionName,...]
Each output line is one schedule: a JSON list of {"a": name, "args": [...]} starting at the initial state.
Walks prefer uncovered out-edges and BFS to the nearest state that still has one when stuck.
"""
import sys, re, json, random, collections

def parse_label(lbl):
    lbl = lbl.replace('\\"', '"').replace('\\\\', '\\')
    m = re.match(r'^(\w+)(?:\((.*)\))?$', lbl, flags=re.S)
    if not m:
        return {"a": lbl, "args": []}
    name, rest = m.group(1), m.group(2)
    args = []
    if rest:
        depth, cur, instr = 0, "", False
        for ch in rest:
            if ch == '"':
                instr = not instr
            if not instr and ch in "([{<":
                depth += 1
            if not instr and ch in ")]}>":
                depth -= 1
            if ch == "," and depth == 0 and not instr:
                args.append(cur.strip()); cur = ""
            else:
                cur += ch
        args.append(cur.strip())
    def conv(a):
        if re.fullmatch(r'-?\d+', a):
            return int(a)
        if a.startswith('"') and a.endswith('"'):
            return a[1:-1]
        if a in ("TRUE", "FALSE"):
            return a == "TRUE"
        return a
    return {"a": name, "args": [conv(a) for a in args]}

def main():
    dot, out = sys.argv[1], sys.argv[2]
    opts = dict(zip(sys.argv[3::2], sys.argv[4::2]))
    maxlen = int(opts.get("--maxlen", 60)); maxwalks = int(opts.get("--maxwalks", 10**9))
    rnd = random.Random(int(opts.get("--seed", 1)))
    skip = set(filter(None, opts.get("--skip", "").split(",")))
    edge_re = re.compile(r'^(-?\d+) -> (-?\d+) \[label="((?:[^"\\]|\\.)*)"')
    node_re = re.compile(r'^(-?\d+) \[label=.*style = filled\]')
    adj = collections.defaultdict(list)   # u -> list of (v, label_id)
    labels, lid = [], {}
    init = None
    nedges = 0
    with open(dot) as f:
        for line in f:
            m = edge_re.match(line)
            if m:
                u, v, lb = m.group(1), m.group(2), m.group(3)
                if lb not in lid:
                    lid[lb] = len(labels); labels.append(parse_label(lb))
                if labels[lid[lb]]["a"] in skip:
                    continue
                adj[u].append((v, lid[lb])); nedges += 1
                continue
            m = node_re.match(line)
            if m and init is None:
                init = m.group(1)
    if init is None:
        sys.exit("no initial state in graph")
    for u in adj:
        rnd.shuffle(adj[u])
    uncovered = {u: set(range(len(es))) for u, es in adj.items()}
    remaining = nedges
    # BFS tree from the initial state: shortest action path to every state
    parent = {init: None}
    order = [init]
    q = collections.deque([init])
    while q:
        u = q.popleft()
        for ei, (v, _) in enumerate(adj.get(u, ())):
            if v not in parent:
                parent[v] = (u, ei); q.append(v); order.append(v)
    def prefix(u):
        p = []
        while parent[u] is not None:
            pu, ei = parent[u]
            p.append(labels[adj[pu][ei][1]]); u = pu
        p.reverse()
        return p
    starts = [u for u in order if uncovered.get(u)]
    if "--shuffle" in opts:
        rnd.shuffle(starts)
    walks = 0
    with open(out, "w") as fo:
        for u0 in starts:
            while uncovered.get(u0) and walks < maxwalks:
                sched = prefix(u0)
                cur = u0
                while len(sched) < maxlen:
                    un = uncovered.get(cur)
                    if not un:
                        break
                    ei = un.pop(); remaining -= 1
                    v, l = adj[cur][ei]
                    sched.append(labels[l]); cur = v
                fo.write(json.dumps(sched) + "\n"); walks += 1
            if walks >= maxwalks:
                break
    print(json.dumps({"edges": nedges, "uncovered": remaining, "walks": walks, "labels": len(labels)}))

if __name__ == "__main__":
    main()
