#!/bin/bash
# usage: tools/seedmatrix.sh [parallel]   -- every stored seeded change against the quick check of its own property;
# writes seeded/RESULTS.tsv (dir, rc, first line of the verdict).  Each evaluation runs in its own scratch worktree.
cd /verif
P=${1:-4}
OUT=$(mktemp -d /tmp/seedmatrix.XXXXXX)
ls -d seeded/C*-m* | xargs -P "$P" -I{} sh -c 'd={}; id=$(basename $d | cut -d- -f1); tools/seedeval.sh $id /verif/$d/patch.diff quick > '"$OUT"'/$(basename $d).txt 2>&1; echo "$(basename $d) rc=$?" >> '"$OUT"'/rc.txt'
sort "$OUT/rc.txt" > seeded/RESULTS.tsv
cat seeded/RESULTS.tsv | tr '\n' ' '; echo
for f in "$OUT"/C*.txt; do grep -q "rc=1" "$f" || { echo "--- $(basename $f)"; grep -v WARNING "$f" | tail -3; }; done
rm -rf "$OUT"
