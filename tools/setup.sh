#!/bin/sh
# Offline setup: warm the Go build cache for every driver (plain and -race) against /repo.
set -e
cd "$(dirname "$0")/../harness"
export GOFLAGS=-mod=mod GOPROXY=off GOSUMDB=off GOTOOLCHAIN=local
cp /repo/go.sum . 2>/dev/null || true
T=$(mktemp -d)
trap 'rm -rf "$T"' EXIT
for d in cmd/*/; do
  n=$(basename "$d")
  case " cudp " in *" $n "*) continue;; esac   # built with a source overlay generated at check time (see tools/props/xudpidle.py)
  go build -tags verif -o "$T/$n" "./cmd/$n" || exit 1
done
for n in $(cat ../tools/race_drivers.txt 2>/dev/null); do
  go build -race -tags verif -o "$T/$n-race" "./cmd/$n" || exit 1
done
command -v tlc >/dev/null || { echo "tlc missing"; exit 1; }
echo setup ok
