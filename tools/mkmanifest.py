#!/usr/bin/env python3
"""Regenerates /verif/MANIFEST.json from the table below (keeps it schema-valid at all times)."""
import json, os, subprocess
ROOT = os.path.dirname(os.path.dirname(os.path.abspath(__file__)))

# id -> (design_ref, level text, level_note, technique)
CLAIMED = {
 "C15": ("DESIGN.md §4 C15",
         "Wire.tla (pure TLA+ RFC 7011 value/record/set encoders and an independently written parser) is model-checked exhaustively on a small scope; every (element, value) case run through the real encoder and the real collector decode path is recorded as a trace event and TLC decides bytes = EncValue, reported = Len, decoded = value, decoder consumption exact.",
         "Trusted: TLC, the harness's value<->digit projections (plain shifts), the verif hook VerifDecodePacket. Coverage of wide types is boundary+random, not exhaustive.",
         "TLA+ spec + TLC exhaustive small scope + TLC trace validation of recorded real-code events"),
 "C02": ("DESIGN.md §4 C02",
         "Every message a real exporter writes to a raw peer socket (TCP and UDP) is compared byte for byte by TLC with EncMessage/EncSet/EncTemplateRecord/EncDataRecord of Wire.tla applied to what the application handed over, and independently re-parsed by Wire's reference parser (ParseHeader/ParseTemplateBody/ExactDecode); Wire itself is model-checked on a small scope.",
         "Trusted: TLC, the harness value projections and the peer-socket reader. Inputs are random over the full registry plus user-registered elements, not exhaustive.",
         "TLA+ Wire/Exporter specs + TLC byte-level trace validation of recorded exporter output"),
 "C08": ("DESIGN.md §4 C08",
         "Exporter.tla keeps the sequence counter as 16-bit limbs; TLC explores all send mixes exhaustively on a small scope (counter started at 0 and next to 2^32) and validates recorded sessions of a real exporter, including sessions the verif hook places just below 2^31 and 2^32: header seq/domain/export-time and reported byte count are part of the byte-level equality.",
         "Trusted: TLC, harness, the VerifSetSeqNumber hook. Failed attempts are outside the statement; the model names the code's late-failure counter advance as a deviation action.",
         "TLA+ Exporter spec (TLC exhaustive) + TLC trace validation with limb arithmetic across the 2^32 wrap"),
 "C09": ("DESIGN.md §4 C09",
         "Exporter.tla has one action per SendSet outcome class; error actions leave the wire unchanged. TLC checks NeverInvalid/size/sequence invariants on all mixes to a bounded depth and validates recorded sessions of a real exporter mixing valid sends with unknown ids, wrong counts, id mismatches, every size 65519..65540, undefined sets and ill-typed values; 'nothing written' is observed at the peer socket.",
         "Trusted: TLC, harness peer reader (stray bytes misalign the next read or appear in the final Quiesce read).",
         "TLA+ Exporter spec (TLC exhaustive) + TLC trace validation of recorded valid/invalid send mixes"),
 "C16": ("DESIGN.md §4 C16",
         "SetBuilder.tla models the builder state with one action per API call; the add path is an ignored argument. TLC checks length bookkeeping exhaustively to depth 5-6 and validates recorded operation sequences on one reused real set object (each schedule on four objects: mixed paths and each path alone), comparing reported lengths, header bytes, record buffers and the serialized message with the specification.",
         "Trusted: TLC, harness. Template records are added with empty-valued elements (well-formed use).",
         "TLA+ SetBuilder spec (TLC exhaustive) + TLC trace validation of recorded builder observations"),
 "C03": ("DESIGN.md §4 C03",
         "Collector.tla gives the outcome of decodePacket as a function of the bytes (Wire.tla's reference parser) and the template store: error, template or data with ExactDecode (every field at full width, leftover only padding shorter than a record, nothing conjured). The real decode path is driven exhaustively on a small scope (all bodies over a 4-symbol alphabet x 9 template states x modes), on every truncation and on mutated/random messages; TLC validates each recorded outcome; panics and hangs are events with no action.",
         "Trusted: TLC, harness projections, verif hook. 'Promptly' = 3 s watchdog per message; memory growth is not measured separately (a runaway decode trips the watchdog).",
         "TLA+ Collector/Wire specs + exhaustive small-scope driving of the real decoder + TLC trace validation"),
 "C04": ("DESIGN.md §4 C04",
         "Collector.tla's store is keyed by (domain, id); CollectorMC checks exhaustively (2 domains x 2 ids x 4 versions + bad-early/bad-late/bad-type/data, depth 4-5) that the byte-level model keeps exactly the latest valid template since the last invalidation and that actions on one key never touch another. Every history of length 2-3 and random long histories are run on the real collector; outcome and store snapshot are validated after every message.",
         "Trusted: TLC, harness, verif hooks VerifDecodePacket/VerifTemplates.",
         "TLA+ Collector spec (TLC exhaustive) + exhaustive/random history driving + TLC trace validation incl. store snapshots"),
 "C17": ("DESIGN.md §4 C17",
         "Collector.tla resolves each wire specifier against the registry per decoding mode (strict rejects and invalidates, keep delivers an octet array of the wire length, drop omits the value); the same template and data bytes are fed to three real collectors and TLC validates all three outcomes against the same reference parse, so known fields are unaffected by unknown ones in every mode.",
         "Trusted: TLC, harness; the registry used by the spec is dumped from the real registry.",
         "TLA+ Collector spec + TLC trace validation of the three decoding modes on identical bytes"),
 "C10": ("DESIGN.md §4 C10",
         "TemplateLife.tla models timer firing, the callback's clock read and the callback's locked run as three separate actions, one timer per template object. TLC checks NoEarlyDrop / ExpiryPending / NoOutlive / TimerBelongs exhaustively (2 keys, TTL 2, up to 800 k states) and the liveness 'expired ~> discarded' under weak fairness. Edge-covering walks of TLC's state graph are replayed on a real collector whose clock and timers are the harness's (verif hook): the callback's clock read is the gate that realises fired-but-pending schedules; store, timers and in-flight callbacks are compared with the spec after every step and the invariants are evaluated on every state of every trace.",
         "Trusted: TLC, harness clock/timer implementation (it mimics time.AfterFunc Stop/Reset semantics), verif hooks. The real time package is not exercised by engine A.",
         "TLA+ TemplateLife spec (TLC exhaustive + liveness) + replay of TLC state-graph schedules on the real code + TLC trace validation"),
 "C11": ("DESIGN.md §4 C11",
         "Framing.tla composes a per-connection byte stream (any segmentation) with Collector.tla; FramingMC explores all segmentations and interleavings of two small streams with an undecodable message anywhere. The real connection handler is run on every single/double cut point and byte-by-byte splits (in-memory connection: one write = one read boundary) and on real loopback sockets with random cuts and delays; TLC checks that each delivery is the decoding of exactly the next whole frame of its connection and that End happens exactly on the first undecodable message or on client close with nothing pending.",
         "Trusted: TLC, harness, verif hook VerifHandleTCPConn. Kernel-level segmentation on loopback is whatever the kernel does; the in-memory part is deterministic.",
         "TLA+ Framing spec (TLC exhaustive) + exhaustive cut-point driving of the real handler + TLC trace validation"),
 "C05": ("DESIGN.md §4 C05",
         "Aggregation.tla carries the code-shaped transitions (+=, latest value, 8*diff/dt, per-node previous end) and, over a history variable, the declarative reading of the property (ArithmeticOK: per node totals = latest, deltas = sum since reset, throughput from the node's previous record, common fields follow a node holding the latest end). TLC checks their agreement on all record/reset histories of one flow within the exporter contract (420 k - several M states) plus independence and reset-only-delta action properties; random histories on the real AggregationProcess are validated step by step on the full projection of every flow record, with ArithmeticOK evaluated on every state.",
         "Trusted: TLC, harness projections through GetRecords and the snapshot hook. Counters below 2^27 in the full-state runs; octet counters of 2^40..2^60 are covered on single-stream flows by limb arithmetic (BigArith.tla / C05BigTrace); uint64 wrap-around not covered.",
         "TLA+ Aggregation spec (TLC exhaustive, declarative vs code-shaped) + TLC trace validation of full flow-record projections"),
 "C06": ("DESIGN.md §4 C06",
         "Aggregation.tla models the expiry queue as a set of [key, active, inactive] items and the scan as one atomic action parameterised by the failing-key set and the pop order; AggExpiryMC checks Agreement, CallbackIff, InactiveRemoves/ActiveKeeps, FailureKeepsFlow exhaustively (2 keys, now<=5, every failing subset). Every edge of TLC's state graph is replayed on the real process under virtual time, plus random histories; flow map, heap array (index fields, heap order, back pointers), GetNumFlows and GetExpiry are compared after every call.",
         "Trusted: TLC, harness, verif hooks VerifShiftDeadlines/VerifSnapshot. A deadline exactly equal to the scan instant cannot be produced by the hook.",
         "TLA+ Aggregation spec (TLC exhaustive) + replay of TLC state-graph schedules under virtual time + TLC trace validation"),
 "C07": ("DESIGN.md §4 C07",
         "Same specification and engines as C06: ready / retries / filled and the correlate fields are state; NeverHalfFilled, ReadyAtOnce, ReadyComplete and RetriesBounded are invariants checked exhaustively and on every state of every validated trace; random histories add never-correlated flows, denied/rejected flows and stale records.",
         "Trusted: as C06. Records of one 5-tuple with conflicting classifications are modelled but the declarative invariants are not asserted for them.",
         "TLA+ Aggregation spec (TLC exhaustive) + graph replay / random histories + TLC trace validation"),
 "C13": ("DESIGN.md §4 C13",
         "Aggregation.tla (model-checked exhaustively on its own) is the sequential specification; AggLin.tla reads each recorded concurrent history (inv/ret stamps from one atomic counter) and TLC searches depth-first for a linearization that respects real-time order and reproduces every recorded result, every exported record and the final full state. A completed search without one is the violation. Runs are under the Go race detector; race/crash reports for go-ipfix frames are appended as operations that nothing explains.",
         "Trusted: TLC, harness stamps, the race detector for the schedules actually run. Worker-pool messages have no observable completion (30 ms quiescence wait). Histories are <= 40 operations; a search that times out is reported as inconclusive, never as a verdict.",
         "TLA+ sequential spec + TLC linearization search (AggLin.tla) over recorded concurrent histories under -race"),
 "C01": ("DESIGN.md §4 C01",
         "Pipeline.tla composes Exporter.tla with an ordered channel (head-only delivery for TCP/TLS, loss allowed for UDP/DTLS) and a delivery action that requires the delivered message to be the same as what was handed over (domain, sequence number, template fields incl. type/length/name, record count, every value). The channel skeleton is model-checked; real exporter->collector sessions over tcp/udp/tls/dtls x IPv4/IPv6 with templates from the full registry are validated event by event, and a reliable session must end with nothing in flight.",
         "Trusted: TLC, harness value projections (typed getters), per-run certificates. Transport size limits as stated in the evidence assumptions.",
         "TLA+ Pipeline spec (Exporter o channel o delivery) + TLC trace validation of real end-to-end sessions on 8 transport configurations"),
 "C14": ("DESIGN.md §4 C14",
         "ExporterConc.tla models application, refresher, connection checker, peer and any number of closers as interleaved processes; TLC checks CloseOnce, NoWriteAfterClose, ReturnedMeansStopped, RefreshKnown, application order and the liveness CloseInvoked ~> CloseReturned on all interleavings (87 k / 14 k states). Real runs under -race: every datagram at a raw UDP peer must be, byte for byte, the next pending application message or a refresh of a known template; refresh completeness per interval, silence after the marker that follows the last Close, failing sends after a TCP peer close, goroutine leaks and race-detector reports are all trace events decided by TLC.",
         "Trusted: TLC, harness, race detector (schedules actually run), UDP loopback ordering, timing slack as stated.",
         "TLA+ ExporterConc spec (TLC exhaustive + liveness) + TLC trace validation of peer-observed datagrams and lifecycle events under -race"),
 "C12": ("DESIGN.md §4 C12",
         "CollectorConc.tla models per-connection readers, the unbuffered hand-off to the consumer, the clients map, Stop and the wait group; TLC checks PerConnOrder, ExactlyOnce, CountZero, AfterStop and the liveness Stop ~> returned on all interleavings (2-3 clients, reliable and lossy). Real runs under -race with 1-64 concurrent tcp/udp/tls clients (clean and abrupt closes, Stop during traffic, Stop right after start): write/deliver/stop/connection-count/leak observations and race-detector reports are trace events validated by TLC.",
         "Trusted: TLC, harness logging discipline, race detector for the schedules run, goroutine-profile filter for leak detection.",
         "TLA+ CollectorConc spec (TLC exhaustive + liveness) + TLC trace validation of concurrent real runs under -race"),
 "C18": ("DESIGN.md §4 C18",
         "Transport.tla states the admission policy as operators over a configuration cell (server certificate, ServerName, client certificate, client CA, protocol, peer max version, plaintext peer); TLC checks the property's implications over the whole matrix (4032 cells). One real handshake (and message) is run per cell of the exercised matrix against the real exporter or collector with certificates minted per run, and TLC validates each observed outcome (established / delivered / version / nothing sent in the clear) against the policy.",
         "Trusted: TLC, crypto/tls and pion/dtls (the handshake implementations), the harness peers. DTLS without ServerName is permissive; DTLS client authentication is not claimed.",
         "TLA+ Transport policy spec (TLC over the configuration matrix and over histories of exporters against one endpoint; TLAPS proofs of the policy theorems for every cell) + one real handshake per cell / history step + TLC validation"),
 "C19": ("DESIGN.md §4 C19",
         "Kafka.tla specifies out = flatten(in): one expected Kafka message per data record in order, none for templates, with the schema's element-to-field mapping and the message header fields; TLC checks it exhaustively on small streams. The real PublishIPFIXMessages runs with both shipped convertors against a fake AsyncProducer; TLC validates topic, 4-byte big-endian length prefix, protobuf well-formedness, field-by-field equality (fields read by the harness's own wire reader) and the consumer-side decoder's result.",
         "Trusted: TLC, the harness's protobuf wire reader and field-number table, the fake producer. Values below 2^31.",
         "TLA+ Kafka spec (TLC exhaustive) + TLC trace validation of published payloads"),
 "C20": ("DESIGN.md §4 C20",
         "Store.tla specifies the bounded window (evict oldest at the cap), the /records query (status and result) and /reset; TLC checks Bounded, MostRecentInOrder and the query result exhaustively with cap 3. An in-package driver (injected with -overlay) drives addIPFIXMessage and the HTTP handlers through several multiples of the real cap; TLC validates every arrival (incl. that every field of every record is rendered by name and value), query and reset.",
         "Trusted: TLC, the driver's parsing of rendered entries, go's -overlay. The cap constant is read from the source at check time.",
         "TLA+ Store spec (TLC exhaustive at cap 3; TLAPS proof of the bound and of suffix-of-arrivals for every cap and history) + TLC trace validation of an in-package driver run with the real cap"),
}
PENDING = {}

def main():
    props = [json.loads(l) for l in open(os.path.join(ROOT, "properties.jsonl"))]
    try:
        commits = subprocess.run(["git", "-C", "/repo", "log", "--format=%H %s"], capture_output=True, text=True).stdout.splitlines()
        hook_commits = [c.split()[0] for c in commits if "verif hook" in c]
    except Exception:
        hook_commits = []
    checks, na = [], []
    for p in props:
        pid = p["id"]
        if pid in CLAIMED:
            ref, text, note, tech = CLAIMED[pid]
            checks.append(dict(property_id=pid, quick_cmd="./check %s --tier quick" % pid,
                               thorough_cmd="./check %s --tier thorough" % pid,
                               evidence_file="/verif/evidence/%s.json" % pid,
                               replay_cmd_template="./check %s --replay {path}" % pid,
                               engine="tla-trace", level_claimed=dict(category="model_checking", text=text, design_ref=ref),
                               level_note=note, technique=tech))
        else:
            na.append(dict(property_id=pid, reason=PENDING.get(pid, "check not built yet in this revision of /verif (planned: TLA+ spec + trace validation, see DESIGN.md §4)")))
    m = dict(version=1,
             setup_cmd="./tools/setup.sh",
             hooks=dict(guard="verif", enable="go build -tags verif (files *_verif.go with //go:build verif)",
                        baseline_off_cmd="cd /repo && GOFLAGS=-mod=mod GOPROXY=off GOSUMDB=off go test -vet=off -count=1 -timeout 25m ./...",
                        source_commits=hook_commits, add_only=True),
             engines=[dict(name="tla-trace", path="/verif/check", serves_properties=sorted(CLAIMED),
                           kind_free_text="explicit TLA+ specifications (spec/*.tla) model-checked with TLC; Go drivers (harness/) record NDJSON traces of the real code or replay TLC-generated schedules; TLC validates every trace against the trace specification (spec/trace/*Trace.tla)")],
             checks=checks, not_applicable=na,
             notes="Exit codes: 0 held, 1 VIOLATION (a trace of the real code rejected by TLC and not a listed known finding), 2 machinery error (never a verdict). Known findings: /verif/known_findings.json.")
    json.dump(m, open(os.path.join(ROOT, "MANIFEST.json"), "w"), indent=1)

if __name__ == "__main__":
    main()
