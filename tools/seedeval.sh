#!/bin/bash
# usage: tools/seedeval.sh <Cxx> <patch.diff> [tier]   -- applies the patch to a scratch worktree and runs the check against it
set -u
P=$1; PATCH=$2; TIER=${3:-quick}
W=$(mktemp -d /tmp/seedeval.XXXXXX)
git -C /repo worktree add -q --detach "$W/repo" HEAD || exit 3
trap 'git -C /repo worktree remove --force "$W/repo" >/dev/null 2>&1; rm -rf "$W"' EXIT
git -C "$W/repo" apply "$PATCH" || { echo "PATCH-DOES-NOT-APPLY"; exit 3; }
cd /verif && VERIF_REPO="$W/repo" ./check "$P" --tier "$TIER" > "$W/out.txt" 2>&1
rc=$?
echo "== $P $(basename $(dirname $PATCH))/$(basename $PATCH) tier=$TIER rc=$rc"
grep -m4 "VIOLATION\|MACHINERY\|^OK\|rejected by" "$W/out.txt" | cut -c1-330
exit $rc
